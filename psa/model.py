"""Program model: modules, symbols, functions, decorators, constant evaluation.

Everything is computed from source text with the stdlib ``ast`` module; no
module of the analysed program is ever imported or executed.
"""
import ast
import copy as _copy
import hashlib
import os

PKG = 'placement'


class AnalysisError(Exception):
    """The checker could not decide (lost anchor, unsupported construct)."""


class Unknown(object):
    """A value the constant evaluator could not fold."""

    def __init__(self, why):
        self.why = why

    def __repr__(self):
        return 'Unknown(%s)' % self.why


class Ref(object):
    """Symbolic reference to a program entity (function, class, external)."""

    def __init__(self, qname):
        self.qname = qname

    def __repr__(self):
        return 'Ref(%s)' % self.qname

    def __eq__(self, other):
        return isinstance(other, Ref) and other.qname == self.qname

    def __hash__(self):
        return hash(('Ref', self.qname))

    def __deepcopy__(self, memo):
        return self


class CallRec(object):
    """Symbolic record of a constructor/function call kept by consteval."""

    def __init__(self, func, args, kwargs, node=None):
        self.func = func        # dotted qualified name
        self.args = args
        self.kwargs = kwargs
        self.node = node

    def __repr__(self):
        return 'CallRec(%s, %r, %r)' % (self.func, self.args, self.kwargs)

    def __deepcopy__(self, memo):
        return self


class Decorator(object):
    def __init__(self, qname, node, args=None, kwargs=None):
        self.qname = qname
        self.node = node
        self.args = args or []
        self.kwargs = kwargs or {}

    def __repr__(self):
        return '@%s%s' % (self.qname, tuple(self.args) if self.args else '')


class Func(object):
    def __init__(self, module, node, cls=None, parent=None):
        self.module = module
        self.node = node
        self.cls = cls            # Class or None
        self.parent = parent      # enclosing Func or None
        self.name = node.name
        self.decorators = []      # outermost first
        self.ordinal = 0          # n-th definition of the same qualified name
        self.nested = {}          # name -> [Func]
        self._qbase = None

    @property
    def qbase(self):
        """Qualified name without redefinition marker."""
        if self._qbase is None:
            if self.parent is not None:
                self._qbase = '%s>%s' % (self.parent.qname, self.name)
            elif self.cls is not None:
                self._qbase = '%s:%s.%s' % (self.module.name, self.cls.name,
                                            self.name)
            else:
                self._qbase = '%s:%s' % (self.module.name, self.name)
        return self._qbase

    @property
    def qname(self):
        win = self.version_window
        if win is not None:
            lo, hi, _st = win
            return '%s@%s-%s' % (self.qbase, lo, hi or '')
        if self.ordinal:
            return '%s#%d' % (self.qbase, self.ordinal + 1)
        return self.qbase

    @property
    def version_window(self):
        for d in self.decorators:
            if d.qname == 'placement.microversion.version_handler':
                lo = d.args[0] if d.args else d.kwargs.get('min_ver')
                hi = d.args[1] if len(d.args) > 1 else d.kwargs.get('max_ver')
                st = d.args[2] if len(d.args) > 2 else d.kwargs.get(
                    'status_code', 404)
                return (lo, hi, st)
        return None

    def has_decorator(self, qname):
        return any(d.qname == qname for d in self.decorators)

    @property
    def params(self):
        a = self.node.args
        return [x.arg for x in a.posonlyargs + a.args + a.kwonlyargs]

    @property
    def file(self):
        return self.module.relpath

    @property
    def line(self):
        return self.node.lineno

    def loc(self, node=None):
        n = node if node is not None else self.node
        return '%s:%d' % (self.module.relpath, getattr(n, 'lineno', 0))

    def __repr__(self):
        return '<Func %s>' % self.qname


class Class(object):
    def __init__(self, module, node):
        self.module = module
        self.node = node
        self.name = node.name
        self.methods = {}     # name -> [Func]
        self.bases = []       # resolved dotted names
        self.attrs = {}       # class-level assignments name -> ast node

    @property
    def qname(self):
        return '%s:%s' % (self.module.name, self.name)

    @property
    def dotted(self):
        return '%s.%s' % (self.module.name, self.name)

    def __repr__(self):
        return '<Class %s>' % self.qname


def _falls_through(stmts):
    if not stmts:
        return True
    last = stmts[-1]
    if isinstance(last, (ast.Return, ast.Raise, ast.Continue, ast.Break)):
        return False
    if isinstance(last, ast.If) and last.orelse:
        return _falls_through(last.body) or _falls_through(last.orelse)
    return True


class _SubstNames(ast.NodeTransformer):
    def __init__(self, mapping):
        self.mapping = mapping

    def visit_Name(self, node):
        if isinstance(node.ctx, ast.Load) and node.id in self.mapping:
            return _plain_copy(self.mapping[node.id])
        return node


def _plain_copy(node):
    if isinstance(node, list):
        return [_plain_copy(x) for x in node]
    if not isinstance(node, ast.AST):
        return node
    new = type(node)()
    for fld in node._fields:
        if hasattr(node, fld):
            setattr(new, fld, _plain_copy(getattr(node, fld)))
    for a in ('lineno', 'col_offset', 'end_lineno', 'end_col_offset'):
        if hasattr(node, a):
            setattr(new, a, getattr(node, a))
    return new


def _table_comprehensions(tree):
    """A comprehension over a module-level literal table (a dict display
    with constant keys walked by .items() / .keys() / itself, or a display
    of tuples), without conditions, is the display it builds: ``{k:
    getattr(o, k) or d for k, d in T.items()}`` is ``{'a': o.a or 0, ...}``.
    ``getattr(o, '<identifier>')`` with two arguments is ``o.<identifier>``."""
    tables = {}
    counts = {}
    for st in tree.body:
        if isinstance(st, ast.Assign) and len(st.targets) == 1 and \
                isinstance(st.targets[0], ast.Name):
            nm = st.targets[0].id
            counts[nm] = counts.get(nm, 0) + 1
            v = st.value
            if isinstance(v, ast.Dict) and v.keys and len(v.keys) <= 12 \
                    and all(isinstance(k, ast.Constant) for k in v.keys) \
                    and all(_pure(x) for x in v.values):
                tables[nm] = ('dict', v)
            elif isinstance(v, (ast.Tuple, ast.List)) and v.elts and len(
                    v.elts) <= 12 and all(_pure(e) for e in v.elts):
                tables[nm] = ('seq', v)
    tables = {k: v for k, v in tables.items() if counts.get(k) == 1}
    if not tables:
        return

    def rows_of(it, arity):
        if isinstance(it, ast.Call) and isinstance(
                it.func, ast.Attribute) and isinstance(
                    it.func.value, ast.Name) and it.func.value.id in tables \
                and not it.args and not it.keywords:
            kind, v = tables[it.func.value.id]
            if kind != 'dict':
                return None
            if it.func.attr == 'items' and arity == 2:
                return [[k, x] for k, x in zip(v.keys, v.values)]
            if it.func.attr == 'keys' and arity == 1:
                return [[k] for k in v.keys]
            if it.func.attr == 'values' and arity == 1:
                return [[x] for x in v.values]
            return None
        if isinstance(it, ast.Name) and it.id in tables:
            kind, v = tables[it.id]
            if kind == 'dict' and arity == 1:
                return [[k] for k in v.keys]
            if kind == 'seq':
                if arity == 1:
                    return [[e] for e in v.elts]
                if all(isinstance(e, ast.Tuple) and len(e.elts) == arity
                       for e in v.elts):
                    return [list(e.elts) for e in v.elts]
        return None

    class T(ast.NodeTransformer):
        def _expand(self, node):
            self.generic_visit(node)
            if len(node.generators) != 1:
                return node
            g = node.generators[0]
            if g.ifs or g.is_async:
                return node
            if isinstance(g.target, ast.Name):
                names = [g.target.id]
            elif isinstance(g.target, ast.Tuple) and all(
                    isinstance(t, ast.Name) for t in g.target.elts):
                names = [t.id for t in g.target.elts]
            else:
                return node
            rows = rows_of(g.iter, len(names))
            if rows is None:
                return node
            outs = []
            for r in rows:
                sub = _SubstNames(dict(zip(names, r)))
                if isinstance(node, ast.DictComp):
                    outs.append((_Getattr().visit(sub.visit(_plain_copy(
                        node.key))), _Getattr().visit(sub.visit(_plain_copy(
                            node.value)))))
                else:
                    outs.append(_Getattr().visit(sub.visit(_plain_copy(
                        node.elt))))
            if isinstance(node, ast.DictComp):
                new = ast.Dict(keys=[k for k, _v in outs],
                               values=[v for _k, v in outs])
            elif isinstance(node, ast.ListComp):
                new = ast.List(elts=outs, ctx=ast.Load())
            elif isinstance(node, ast.SetComp):
                new = ast.Set(elts=outs)
            else:
                return node
            return ast.fix_missing_locations(ast.copy_location(new, node))

        visit_DictComp = visit_ListComp = visit_SetComp = _expand
    T().visit(tree)


class _Getattr(ast.NodeTransformer):
    def visit_Call(self, node):
        self.generic_visit(node)
        if isinstance(node.func, ast.Name) and node.func.id == 'getattr' \
                and len(node.args) == 2 and not node.keywords and \
                isinstance(node.args[1], ast.Constant) and isinstance(
                    node.args[1].value, str) and \
                node.args[1].value.isidentifier():
            return ast.copy_location(ast.Attribute(
                value=node.args[0], attr=node.args[1].value,
                ctx=ast.Load()), node)
        return node


def _unroll_table_loops(tree):
    """``for a, b in TABLE: if t(a): body(b) [break]`` over a module-level
    constant table of literal tuples is the if / elif chain it abbreviates:
    without ``break`` a sequence of independent ifs, with ``break`` as the
    last statement of the if an if/elif chain (a loop ``else`` becomes the
    final else).  Only tables assigned once at module level as a tuple/list
    display whose elements are tuple displays of the target's arity."""
    tables = {}
    counts = {}
    for st in tree.body:
        if isinstance(st, ast.Assign) and len(st.targets) == 1 and \
                isinstance(st.targets[0], ast.Name):
            nm = st.targets[0].id
            counts[nm] = counts.get(nm, 0) + 1
            if isinstance(st.value, (ast.Tuple, ast.List)) and st.value.elts \
                    and all(isinstance(e, ast.Tuple) for e in st.value.elts):
                tables[nm] = st.value.elts
    tables = {k: v for k, v in tables.items() if counts.get(k) == 1}
    # the scope (function or module) each loop belongs to: a loop variable
    # that is read after its loop keeps the last value it was given
    scope_of = {}
    for sc in [tree] + [n for n in ast.walk(tree) if isinstance(
            n, (ast.FunctionDef, ast.AsyncFunctionDef))]:
        for n in ast.walk(sc):
            if isinstance(n, ast.For):
                scope_of[id(n)] = sc     # innermost wins (walked last)

    def leaks(lp):
        sc = scope_of.get(id(lp), tree)
        names = {x.id for x in ast.walk(lp.target)
                 if isinstance(x, ast.Name)}
        inside = {id(x) for x in ast.walk(lp)}
        return any(isinstance(x, ast.Name) and x.id in names and isinstance(
            x.ctx, ast.Load) and id(x) not in inside for x in ast.walk(sc))
    for node in list(ast.walk(tree)):
        for fld in ('body', 'orelse', 'finalbody'):
            blk = getattr(node, fld, None)
            if not (isinstance(blk, list) and blk and isinstance(
                    blk[0], ast.stmt)):
                continue
            i = 0
            while i < len(blk):
                st = blk[i]
                lk = isinstance(st, ast.For) and leaks(st)
                rep = _unrolled(st, tables, lk) if isinstance(st, ast.For) \
                    else None
                if rep is None and isinstance(st, ast.For):
                    rep = _unrolled_plain(st, lk)
                if rep is not None:
                    blk[i:i + 1] = rep
                    i += len(rep)
                else:
                    i += 1


def _unrolled(lp, tables, leak=False):
    if isinstance(lp.iter, ast.Name) and lp.iter.id in tables:
        elts = tables[lp.iter.id]
    elif isinstance(lp.iter, (ast.Tuple, ast.List)) and lp.iter.elts and \
            len(lp.iter.elts) <= 8 and all(
                isinstance(e, ast.Tuple) and _pure(e)
                for e in lp.iter.elts):
        # a literal table written in place, of names / attributes /
        # constants none of which the body rebinds
        elts = lp.iter.elts
        used = {n.id for e in elts for n in ast.walk(e)
                if isinstance(n, ast.Name)}
        for n in ast.walk(ast.Module(body=lp.body, type_ignores=[])):
            if isinstance(n, ast.Name) and isinstance(
                    n.ctx, ast.Store) and n.id in used:
                return None
    else:
        return None
    if isinstance(lp.target, ast.Tuple):
        tnames = [t.id if isinstance(t, ast.Name) else None
                  for t in lp.target.elts]
    else:
        return None
    if None in tnames or any(len(e.elts) != len(tnames) for e in elts):
        return None
    if len(lp.body) != 1 or not isinstance(lp.body[0], ast.If) or \
            lp.body[0].orelse:
        return None
    iff = lp.body[0]
    has_break = isinstance(iff.body[-1], ast.Break)
    inner = iff.body[:-1] if has_break else iff.body
    for n in ast.walk(ast.Module(body=inner, type_ignores=[])):
        if isinstance(n, (ast.Break, ast.Continue)):
            return None
        if isinstance(n, ast.Name) and isinstance(
                n.ctx, ast.Store) and n.id in tnames:
            return None
    if lp.orelse and not has_break:
        return None
    if not inner and has_break:
        inner = [ast.copy_location(ast.Pass(), iff)]
    def binds(row):
        # the loop variables keep the row's values after the loop
        return [ast.copy_location(ast.Assign(
            targets=[ast.Name(id=t, ctx=ast.Store())],
            value=_plain_copy(v)), lp) for t, v in zip(tnames, row)]
    arms = []
    for e in elts:
        sub = _SubstNames(dict(zip(tnames, e.elts)))
        test = sub.visit(_plain_copy(iff.test))
        body = [sub.visit(_plain_copy(x)) for x in inner]
        if leak and has_break:
            body = binds(e.elts) + body
        arm = ast.If(test=test, body=body, orelse=[])
        ast.copy_location(arm, iff)
        arms.append(arm)
    if not has_break:
        return arms + (binds(elts[-1].elts) if leak else [])
    # chain
    tail = _plain_copy(lp.orelse) if lp.orelse else []
    if leak:
        tail = binds(elts[-1].elts) + tail
    for arm in reversed(arms):
        arm.orelse = tail
        tail = [arm]
    return tail


def _unrolled_plain(lp, leak=False):
    """``for x in (a, b): body`` over a short display of names / attributes
    / constants that the body does not rebind is body[x:=a]; body[x:=b]."""
    if not (isinstance(lp.iter, (ast.Tuple, ast.List)) and lp.iter.elts and
            len(lp.iter.elts) <= 6 and not lp.orelse and len(lp.body) <= 6):
        return None
    elts = lp.iter.elts
    if isinstance(lp.target, ast.Name):
        tnames = [lp.target.id]
        rows = [[e] for e in elts]
    elif isinstance(lp.target, ast.Tuple) and all(
            isinstance(t, ast.Name) for t in lp.target.elts):
        tnames = [t.id for t in lp.target.elts]
        if not all(isinstance(e, ast.Tuple) and len(e.elts) == len(tnames)
                   for e in elts):
            return None
        rows = [list(e.elts) for e in elts]
    else:
        return None
    if not all(_pure(x) for r in rows for x in r):
        return None
    used = {n.id for r in rows for x in r for n in ast.walk(x)
            if isinstance(n, ast.Name)}
    for n in ast.walk(ast.Module(body=lp.body, type_ignores=[])):
        if isinstance(n, (ast.Break, ast.Continue, ast.Return, ast.Yield,
                          ast.YieldFrom, ast.FunctionDef, ast.Lambda,
                          ast.ClassDef)):
            return None
        if isinstance(n, ast.Name) and isinstance(
                n.ctx, (ast.Store, ast.Del)) and (
                    n.id in used or n.id in tnames):
            return None
    out = []
    for r in rows:
        sub = _SubstNames(dict(zip(tnames, r)))
        out.extend(sub.visit(_plain_copy(x)) for x in lp.body)
    if leak:
        out.extend(ast.copy_location(ast.Assign(
            targets=[ast.Name(id=t, ctx=ast.Store())],
            value=_plain_copy(v)), lp) for t, v in zip(tnames, rows[-1]))
    return out


def _pure(e):
    if isinstance(e, (ast.Name, ast.Constant)):
        return True
    if isinstance(e, ast.Attribute):
        return _pure(e.value)
    if isinstance(e, ast.Tuple):
        return all(_pure(x) for x in e.elts)
    return False


def _plain_idioms(tree):
    """Two dictionary idioms in their plain spelling:

    * statement ``d.setdefault(k, v)`` (result unused, k and v side-effect
      free)  ->  ``if k not in d: d[k] = v``
    * ``try: x = m[k]`` / ``except KeyError: <never falls through>``
      ->  ``if k not in m: <handler>`` then ``x = m[k]``"""
    for node in list(ast.walk(tree)):
        for fld in ('body', 'orelse', 'finalbody'):
            blk = getattr(node, fld, None)
            if not (isinstance(blk, list) and blk and isinstance(
                    blk[0], ast.stmt)):
                continue
            i = 0
            while i < len(blk):
                st = blk[i]
                if isinstance(st, ast.Expr) and isinstance(
                        st.value, ast.Call) and isinstance(
                            st.value.func, ast.Attribute) and \
                        st.value.func.attr == 'setdefault' and isinstance(
                            st.value.func.value, ast.Name) and len(
                                st.value.args) == 2 and not \
                        st.value.keywords and all(
                            _pure(a) for a in st.value.args):
                    d = st.value.func.value
                    k, v = st.value.args
                    test = ast.Compare(left=_plain_copy(k),
                                       ops=[ast.NotIn()],
                                       comparators=[ast.Name(
                                           id=d.id, ctx=ast.Load())])
                    store = ast.Assign(targets=[ast.Subscript(
                        value=ast.Name(id=d.id, ctx=ast.Load()),
                        slice=_plain_copy(k), ctx=ast.Store())], value=v)
                    new = ast.If(test=test, body=[store], orelse=[])
                    for x in (test, store, new):
                        ast.copy_location(x, st)
                    blk[i] = new
                elif isinstance(st, ast.Try) and not st.orelse and not \
                        st.finalbody and len(st.body) == 1 and len(
                            st.handlers) == 1 and isinstance(
                                st.body[0], ast.Assign) and isinstance(
                                    st.body[0].value, ast.Subscript) and \
                        _pure(st.body[0].value.value) and _pure(
                            st.body[0].value.slice) and \
                        st.handlers[0].name is None and \
                        st.handlers[0].type is not None and ast.unparse(
                            st.handlers[0].type) == 'KeyError' and not \
                        _falls_through(st.handlers[0].body):
                    sub = st.body[0].value
                    test = ast.Compare(left=_plain_copy(sub.slice),
                                       ops=[ast.NotIn()],
                                       comparators=[_plain_copy(sub.value)])
                    new = ast.If(test=test, body=st.handlers[0].body,
                                 orelse=[])
                    ast.copy_location(test, st)
                    ast.copy_location(new, st)
                    blk[i:i + 1] = [new, st.body[0]]
                    i += 1
                i += 1


def _filtered_iteration(tree):
    """``for x in (c for c in IT if p(c)): BODY`` is ``for x in IT: if
    p(x): BODY`` (a lazy generator that only filters)."""
    for node in ast.walk(tree):
        if not isinstance(node, ast.For) or not isinstance(
                node.iter, ast.GeneratorExp) or not isinstance(
                    node.target, ast.Name):
            continue
        ge = node.iter
        if len(ge.generators) != 1:
            continue
        g = ge.generators[0]
        if g.is_async or not isinstance(g.target, ast.Name) or not (
                isinstance(ge.elt, ast.Name) and ge.elt.id == g.target.id) \
                or not g.ifs:
            continue
        sub = _SubstNames({g.target.id: ast.Name(id=node.target.id,
                                                 ctx=ast.Load())})
        tests = [sub.visit(_plain_copy(t)) for t in g.ifs]
        test = tests[0] if len(tests) == 1 else ast.BoolOp(
            op=ast.And(), values=tests)
        iff = ast.If(test=test, body=node.body, orelse=[])
        ast.copy_location(iff, node)
        ast.copy_location(test, node)
        node.iter = g.iter
        node.body = [iff]


_SCOPE_COUNTER = [0]


def _scope_blocks(tree):
    """``with <manager>.writer.using(ctx): BODY`` (or ``.reader.using``) in
    a function is the same transaction scope as a local closure decorated
    with ``@<manager>.writer`` that takes the context and is called at once
    - the idiom the reference tree uses.  ``.independent`` scopes are left
    alone (they are a different kind of scope, decided by their own rule).
    Assignments inside the block become locals of the closure, which only
    matters to rules that track a value out of the block."""
    for fn in [n for n in ast.walk(tree) if isinstance(n, ast.FunctionDef)]:
        for node in list(ast.walk(fn)):
            for fld in ('body', 'orelse', 'finalbody'):
                blk = getattr(node, fld, None)
                if not (isinstance(blk, list) and blk and isinstance(
                        blk[0], ast.stmt)):
                    continue
                i = 0
                while i < len(blk):
                    st = blk[i]
                    i += 1
                    if not (isinstance(st, ast.With) and len(
                            st.items) == 1 and st.items[0].optional_vars
                            is None):
                        continue
                    e = st.items[0].context_expr
                    if not (isinstance(e, ast.Call) and isinstance(
                            e.func, ast.Attribute) and e.func.attr ==
                            'using' and len(e.args) == 1 and isinstance(
                                e.func.value, ast.Attribute)
                            and e.func.value.attr in ('writer', 'reader')):
                        continue
                    if any(isinstance(x, (ast.Return, ast.Yield))
                           for s_ in st.body for x in ast.walk(s_)):
                        continue
                    _SCOPE_COUNTER[0] += 1
                    name = '_scope_block_%d' % _SCOPE_COUNTER[0]
                    ctx_arg = e.args[0]
                    pname = ctx_arg.id if isinstance(
                        ctx_arg, ast.Name) else 'ctx'
                    fdef = ast.FunctionDef(
                        name=name,
                        args=ast.arguments(
                            posonlyargs=[], args=[ast.arg(arg=pname)],
                            kwonlyargs=[], kw_defaults=[], defaults=[]),
                        body=st.body, decorator_list=[e.func.value],
                        returns=None, type_params=[])
                    call = ast.Expr(value=ast.Call(
                        func=ast.Name(id=name, ctx=ast.Load()),
                        args=[ctx_arg], keywords=[]))
                    ast.copy_location(fdef, st)
                    ast.copy_location(call, st)
                    blk[i - 1:i] = [fdef, call]
                    i += 1
    ast.fix_missing_locations(tree)


def _conditional_expressions(tree):
    """``x = a if c else b`` / ``return a if c else b`` (the conditional
    expression is the whole value) is the if / else statement."""
    for node in list(ast.walk(tree)):
        for fld in ('body', 'orelse', 'finalbody'):
            blk = getattr(node, fld, None)
            if not (isinstance(blk, list) and blk and isinstance(
                    blk[0], ast.stmt)):
                continue
            for i, st in enumerate(blk):
                if isinstance(st, (ast.Assign, ast.Return)) and isinstance(
                        st.value, ast.IfExp):
                    ie = st.value
                    a = _plain_copy(st)
                    a.value = ie.body
                    b = _plain_copy(st)
                    b.value = ie.orelse
                    new = ast.If(test=ie.test, body=[a], orelse=[b])
                    ast.copy_location(new, st)
                    blk[i] = new


def _star_dict_calls(tree):
    """``f(**{'a': x, 'b': y})`` is ``f(a=x, b=y)``; so is ``d = {'a': x,
    'b': y}`` followed by ``f(**d)`` when d is bound once and read only
    there."""
    # single-use dict locals, per function
    for fn in ast.walk(tree):
        if not isinstance(fn, (ast.FunctionDef, ast.AsyncFunctionDef)):
            continue
        stores, loads = {}, {}
        for n in ast.walk(fn):
            if isinstance(n, ast.Name):
                d = stores if isinstance(n.ctx, (ast.Store, ast.Del)) \
                    else loads
                d[n.id] = d.get(n.id, 0) + 1
        for node in ast.walk(fn):
            for fld in ('body', 'orelse', 'finalbody'):
                blk = getattr(node, fld, None)
                if not (isinstance(blk, list) and blk and isinstance(
                        blk[0], ast.stmt)):
                    continue
                for i, st in enumerate(list(blk)):
                    if not (isinstance(st, ast.Assign) and len(
                            st.targets) == 1 and isinstance(
                                st.targets[0], ast.Name) and isinstance(
                                    st.value, ast.Dict)):
                        continue
                    nm = st.targets[0].id
                    if stores.get(nm) != 1 or loads.get(nm) != 1:
                        continue
                    # the one read: a ** argument of a call in the next
                    # statement of the same block
                    j = blk.index(st)
                    if j + 1 >= len(blk):
                        continue
                    nxt = blk[j + 1]
                    hit = None
                    for c in ast.walk(nxt):
                        if isinstance(c, ast.Call):
                            for k in c.keywords:
                                if k.arg is None and isinstance(
                                        k.value, ast.Name) and \
                                        k.value.id == nm:
                                    hit = k
                    if hit is None or isinstance(nxt, (
                            ast.For, ast.While, ast.If, ast.Try, ast.With,
                            ast.FunctionDef)):
                        continue
                    hit.value = st.value
                    blk.remove(st)
    for n in ast.walk(tree):
        if not isinstance(n, ast.Call):
            continue
        new = []
        for k in n.keywords:
            if k.arg is None and isinstance(k.value, ast.Dict) and \
                    k.value.keys and all(
                        isinstance(x, ast.Constant) and isinstance(
                            x.value, str) and x.value.isidentifier()
                        for x in k.value.keys):
                for kk, vv in zip(k.value.keys, k.value.values):
                    new.append(ast.copy_location(
                        ast.keyword(arg=kk.value, value=vv), k))
            else:
                new.append(k)
        n.keywords = new


def _star_tuple_calls(tree):
    """``t = (a, b, c)`` whose every read is ``*t`` among the arguments of a
    call: one local per element, passed positionally (evaluation order and
    the place where an element expression can raise stay what they
    were)."""
    for fn in ast.walk(tree):
        if not isinstance(fn, (ast.FunctionDef, ast.AsyncFunctionDef)):
            continue
        stores, loads, starred = {}, {}, {}
        for n in ast.walk(fn):
            if isinstance(n, ast.Name):
                d = stores if isinstance(n.ctx, (ast.Store, ast.Del)) \
                    else loads
                d[n.id] = d.get(n.id, 0) + 1
            if isinstance(n, ast.Call):
                for a in n.args:
                    if isinstance(a, ast.Starred) and isinstance(
                            a.value, ast.Name):
                        starred.setdefault(a.value.id, []).append((n, a))
        for node in ast.walk(fn):
            for fld in ('body', 'orelse', 'finalbody'):
                blk = getattr(node, fld, None)
                if not (isinstance(blk, list) and blk and isinstance(
                        blk[0], ast.stmt)):
                    continue
                for st in list(blk):
                    if not (isinstance(st, ast.Assign) and len(
                            st.targets) == 1 and isinstance(
                                st.targets[0], ast.Name) and isinstance(
                                    st.value, ast.Tuple) and not any(
                                        isinstance(e, ast.Starred)
                                        for e in st.value.elts)):
                        continue
                    nm = st.targets[0].id
                    uses = starred.get(nm, [])
                    if stores.get(nm) != 1 or not uses or \
                            loads.get(nm) != len(uses):
                        continue
                    temps = ['%s__s%d' % (nm, k)
                             for k in range(len(st.value.elts))]
                    new = [ast.copy_location(ast.Assign(
                        targets=[ast.Name(id=t, ctx=ast.Store())],
                        value=e), st)
                        for t, e in zip(temps, st.value.elts)]
                    j = blk.index(st)
                    blk[j:j + 1] = new
                    for c, a in uses:
                        k = c.args.index(a)
                        c.args[k:k + 1] = [ast.copy_location(
                            ast.Name(id=t, ctx=ast.Load()), a)
                            for t in temps]
                    for x in new:
                        ast.fix_missing_locations(x)


def _tail_blocks(blk):
    """blk and every nested block whose end is the end of blk."""
    yield blk
    if not blk:
        return
    last = blk[-1]
    if isinstance(last, ast.If):
        for b in _tail_blocks(last.body):
            yield b
        if last.orelse:
            for b in _tail_blocks(last.orelse):
                yield b
    elif isinstance(last, ast.Try) and not last.finalbody:
        for b in _tail_blocks(last.orelse if last.orelse else last.body):
            yield b
        for h in last.handlers:
            for b in _tail_blocks(h.body):
                yield b
    elif isinstance(last, ast.With):
        for b in _tail_blocks(last.body):
            yield b


def _arms(st):
    """Blocks one of which completes when st completes normally."""
    if isinstance(st, ast.If) and st.orelse:
        return [st.body, st.orelse]
    if isinstance(st, ast.Try) and not st.finalbody:
        return [st.orelse if st.orelse else st.body] + [
            h.body for h in st.handlers]
    return None


def _thread_flags(blk, tree):
    """``<try/if whose every arm ends in flag = True/False (or leaves)>``
    directly followed by ``if flag: X`` (flag read nowhere else): X moves to
    the end of the arms that set the flag true, the flag disappears."""
    for i in range(len(blk) - 1):
        st, nxt = blk[i], blk[i + 1]
        arms = _arms(st)
        if not arms or not (isinstance(nxt, ast.If) and not nxt.orelse):
            continue
        t = nxt.test
        want = True
        if isinstance(t, ast.UnaryOp) and isinstance(t.op, ast.Not):
            t, want = t.operand, False
        if not isinstance(t, ast.Name):
            continue
        flag = t.id
        sets = []
        ok = True
        for arm in arms:
            if not arm:
                ok = False
                break
            last = arm[-1]
            if isinstance(last, ast.Assign) and len(last.targets) == 1 and \
                    isinstance(last.targets[0], ast.Name) and \
                    last.targets[0].id == flag and isinstance(
                        last.value, ast.Constant) and isinstance(
                            last.value.value, bool):
                sets.append((arm, last))
            elif not _falls_through(arm):
                continue
            else:
                ok = False
                break
        if not ok or not sets:
            continue
        # the flag is read only by that test and written only by the arms
        # (and, possibly, one constant initialisation before)
        scope = tree
        for fn in ast.walk(tree):
            if isinstance(fn, (ast.FunctionDef, ast.AsyncFunctionDef)) and \
                    any(x is nxt for x in ast.walk(fn)):
                scope = fn
        loads = [x for x in ast.walk(scope) if isinstance(x, ast.Name)
                 and x.id == flag and isinstance(x.ctx, ast.Load)]
        stores = [x for x in ast.walk(scope) if isinstance(x, ast.Name)
                  and x.id == flag and isinstance(x.ctx, ast.Store)]
        if len(loads) != 1 or len(stores) > len(sets) + 1:
            continue
        for arm, last in sets:
            arm.remove(last)
            if last.value.value == want:
                arm.extend(_plain_copy(x) for x in nxt.body)
            if not arm:
                arm.append(ast.copy_location(ast.Pass(), last))
        del blk[i + 1]
        return True
    return False


def src_dump(e):
    return ast.dump(e)


def _negate(t):
    """``not t`` in its plainest spelling: double negation is removed and
    the exact complements is / is not, in / not in, == / != are flipped."""
    if isinstance(t, ast.UnaryOp) and isinstance(t.op, ast.Not):
        return t.operand
    flip = {ast.Is: ast.IsNot, ast.IsNot: ast.Is, ast.In: ast.NotIn,
            ast.NotIn: ast.In, ast.Eq: ast.NotEq, ast.NotEq: ast.Eq}
    if isinstance(t, ast.Compare) and len(t.ops) == 1 and type(
            t.ops[0]) in flip:
        return ast.copy_location(ast.Compare(
            left=t.left, ops=[flip[type(t.ops[0])]()],
            comparators=t.comparators), t)

    def plain(x):
        return (isinstance(x, ast.UnaryOp) and isinstance(x.op, ast.Not)) \
            or (isinstance(x, ast.Compare) and len(x.ops) == 1 and type(
                x.ops[0]) in flip)
    if isinstance(t, ast.BoolOp) and all(plain(v) for v in t.values):
        # De Morgan, when every operand has an exact complement (the
        # truth value of the test is what matters)
        dual = ast.Or() if isinstance(t.op, ast.And) else ast.And()
        return ast.copy_location(ast.BoolOp(
            op=dual, values=[_negate(v) for v in t.values]), t)
    return ast.copy_location(ast.UnaryOp(op=ast.Not(), operand=t), t)


def _simplify_test(t):
    """A branch test without its neutral constants and double negations:
    ``x or False`` / ``x and True`` is x, ``not not x`` is x, ``not (a ==
    b)`` is ``a != b`` (only the truth value of a test is used)."""
    if isinstance(t, ast.UnaryOp) and isinstance(t.op, ast.Not):
        inner = _simplify_test(t.operand)
        n = _negate(inner)
        if isinstance(n, ast.UnaryOp) and isinstance(n.op, ast.Not):
            n.operand = inner
        return n
    if isinstance(t, ast.Compare) and len(t.ops) == 1 and isinstance(
            t.ops[0], (ast.Eq, ast.NotEq)) and isinstance(
                t.left, ast.Tuple) and isinstance(
                    t.comparators[0], ast.Tuple) and len(
                        t.left.elts) == len(t.comparators[0].elts) and \
            t.left.elts and all(_pure(x) for x in list(t.left.elts) + list(
                t.comparators[0].elts)):
        # (a, b) == (c, d) is a == c and b == d; != is the dual
        eq = isinstance(t.ops[0], ast.Eq)
        parts = [ast.copy_location(ast.Compare(
            left=a, ops=[ast.Eq() if eq else ast.NotEq()],
            comparators=[b]), t)
            for a, b in zip(t.left.elts, t.comparators[0].elts)]
        if len(parts) == 1:
            return parts[0]
        return ast.copy_location(ast.BoolOp(
            op=ast.And() if eq else ast.Or(), values=parts), t)
    if isinstance(t, ast.BoolOp):
        neutral = isinstance(t.op, ast.And)
        vals = [_simplify_test(v) for v in t.values]
        kept = [v for v in vals if not (isinstance(v, ast.Constant)
                                        and v.value is neutral)]
        if not kept:
            return ast.copy_location(ast.Constant(value=neutral), t)
        if len(kept) == 1:
            return kept[0]
        t.values = kept
    return t


def _dead_constant_stores(tree):
    """A local that is assigned a constant and never read anywhere in its
    function is not there."""
    for fn in ast.walk(tree):
        if not isinstance(fn, (ast.FunctionDef, ast.AsyncFunctionDef)):
            continue
        loads, special = set(), set()
        for n in ast.walk(fn):
            if isinstance(n, ast.Name) and not isinstance(n.ctx, ast.Store):
                loads.add(n.id)
            elif isinstance(n, (ast.Global, ast.Nonlocal)):
                special.update(n.names)
            elif isinstance(n, ast.Call) and isinstance(
                    n.func, ast.Name) and n.func.id in ('locals', 'vars',
                                                        'eval', 'exec'):
                special.add('*')
        if '*' in special:
            continue
        for node in ast.walk(fn):
            for fld in ('body', 'orelse', 'finalbody'):
                blk = getattr(node, fld, None)
                if not (isinstance(blk, list) and blk and isinstance(
                        blk[0], ast.stmt)):
                    continue
                for st in list(blk):
                    if isinstance(st, ast.Assign) and isinstance(
                            st.value, ast.Constant) and all(
                                isinstance(t, ast.Name) and t.id not in loads
                                and t.id not in special
                                for t in st.targets):
                        if len(blk) == 1:
                            blk[0] = ast.copy_location(ast.Pass(), st)
                        else:
                            blk.remove(st)


_ITER_WRAPPERS = ('range', 'enumerate', 'zip', 'sorted', 'reversed', 'filter',
                  'map', 'list', 'set', 'tuple', 'iter', 'frozenset', 'dict',
                  'getattr', 'len')


def _bind_loop_iterables(tree):
    """``for x in f(...)`` is ``x__it = f(...)`` then ``for x in x__it``:
    a collection that is fetched and walked is the same whether or not it
    was given a name in between (views of a local - .items() and the like -
    and the builtin wrappers are left where they are)."""
    for fn in ast.walk(tree):
        if not isinstance(fn, (ast.FunctionDef, ast.AsyncFunctionDef)):
            continue
        names = {n.id for n in ast.walk(fn) if isinstance(n, ast.Name)} | {
            a.arg for a in ast.walk(fn) if isinstance(a, ast.arg)}
        for node in ast.walk(fn):
            for fld in ('body', 'orelse', 'finalbody'):
                blk = getattr(node, fld, None)
                if not (isinstance(blk, list) and blk and isinstance(
                        blk[0], ast.stmt)):
                    continue
                i = 0
                while i < len(blk):
                    st = blk[i]
                    i += 1
                    if not (isinstance(st, ast.For) and isinstance(
                            st.iter, (ast.Call, ast.SetComp, ast.ListComp,
                                      ast.GeneratorExp, ast.DictComp))):
                        continue
                    fnc = st.iter.func if isinstance(st.iter, ast.Call) \
                        else None
                    if isinstance(fnc, ast.Name) and fnc.id in \
                            _ITER_WRAPPERS:
                        continue
                    if isinstance(fnc, ast.Attribute) and (fnc.attr in (
                            'items', 'keys', 'values', 'product', 'split',
                            'getall', 'get', 'chain', 'fetchall', 'all')
                            or not st.iter.args and not st.iter.keywords):
                        continue
                    base = None
                    for x in ast.walk(st.target):
                        if isinstance(x, ast.Name):
                            base = x.id
                            break
                    if base is None:
                        continue
                    nm = base + '__it'
                    k = 1
                    while nm in names:
                        k += 1
                        nm = '%s__it%d' % (base, k)
                    names.add(nm)
                    a = ast.Assign(
                        targets=[ast.copy_location(
                            ast.Name(id=nm, ctx=ast.Store()), st.iter)],
                        value=st.iter)
                    ast.copy_location(a, st)
                    st.iter = ast.copy_location(
                        ast.Name(id=nm, ctx=ast.Load()), st.iter)
                    blk.insert(i - 1, a)
                    i += 1


def _quantifier_returns(tree):
    """``return all(e for x in xs)`` is the loop ``for x in xs: if not e:
    return False`` followed by ``return True`` (``any`` dually): a
    quantifier over a generator and the early-exit loop are the same
    search."""
    for node in ast.walk(tree):
        for fld in ('body', 'orelse', 'finalbody'):
            blk = getattr(node, fld, None)
            if not (isinstance(blk, list) and blk and isinstance(
                    blk[0], ast.stmt)):
                continue
            i = 0
            while i < len(blk):
                st = blk[i]
                i += 1
                v = st.value if isinstance(st, ast.Return) else None
                if not (isinstance(v, ast.Call) and isinstance(
                        v.func, ast.Name) and v.func.id in ('all', 'any')
                        and len(v.args) == 1 and not v.keywords and
                        isinstance(v.args[0], (ast.GeneratorExp,
                                               ast.ListComp))
                        and len(v.args[0].generators) == 1 and not
                        v.args[0].generators[0].is_async):
                    continue
                gen = v.args[0].generators[0]
                is_all = v.func.id == 'all'
                test = _negate(v.args[0].elt) if is_all else v.args[0].elt
                inner = ast.If(test=test, body=[ast.copy_location(
                    ast.Return(value=ast.Constant(value=not is_all)), st)],
                    orelse=[])
                body = [ast.copy_location(inner, st)]
                for c in reversed(gen.ifs):
                    body = [ast.copy_location(
                        ast.If(test=c, body=body, orelse=[]), st)]
                tgt = gen.target
                for x in ast.walk(tgt):
                    if isinstance(x, ast.Name):
                        x.ctx = ast.Store()
                loop = ast.copy_location(ast.For(
                    target=tgt, iter=gen.iter, body=body, orelse=[]), st)
                last = ast.copy_location(
                    ast.Return(value=ast.Constant(value=is_all)), st)
                ast.fix_missing_locations(loop)
                blk[i - 1:i] = [loop, last]
                i += 1


def _getter_of(e):
    """('attr', [dotted names]) for operator.attrgetter('a.b', ...) and
    ('item', [keys]) for itemgetter(k, ...) with constant arguments."""
    if isinstance(e, ast.Call) and e.args and not e.keywords and all(
            isinstance(a, ast.Constant) for a in e.args):
        nm = ast.unparse(e.func)
        if nm in ('operator.attrgetter', 'attrgetter') and all(
                isinstance(a.value, str) and all(
                    p.isidentifier() for p in a.value.split('.'))
                for a in e.args):
            return ('attr', [a.value for a in e.args])
        if nm in ('operator.itemgetter', 'itemgetter'):
            return ('item', [a.value for a in e.args])
    return None


def _apply_getter(g, arg, at):
    def one(k):
        if g[0] == 'attr':
            cur = _plain_copy(arg)
            for part in k.split('.'):
                cur = ast.Attribute(value=cur, attr=part, ctx=ast.Load())
            return cur
        return ast.Subscript(value=_plain_copy(arg),
                             slice=ast.Constant(value=k), ctx=ast.Load())
    if len(g[1]) == 1:
        new = one(g[1][0])
    else:
        if not _pure(arg):
            return None
        new = ast.Tuple(elts=[one(k) for k in g[1]], ctx=ast.Load())
    return ast.copy_location(new, at)


def _getter_calls(tree):
    """``g = operator.attrgetter('a')`` ... ``g(x)`` is ``x.a`` (itemgetter:
    ``x[k]``; several names: the tuple), for a name bound once - in the
    function or at module level - to the getter; so is the direct
    ``operator.attrgetter('a')(x)``."""
    mod_stores = {}
    for st in getattr(tree, 'body', []):
        if isinstance(st, ast.Assign):
            for t in st.targets:
                if isinstance(t, ast.Name):
                    mod_stores[t.id] = mod_stores.get(t.id, 0) + 1
    mod_getters = {}
    for st in getattr(tree, 'body', []):
        if isinstance(st, ast.Assign) and len(st.targets) == 1 and \
                isinstance(st.targets[0], ast.Name) and mod_stores.get(
                    st.targets[0].id) == 1:
            g = _getter_of(st.value)
            if g:
                mod_getters[st.targets[0].id] = g
    for fn in ast.walk(tree):
        if not isinstance(fn, (ast.FunctionDef, ast.AsyncFunctionDef)):
            continue
        stores = {}
        for n in ast.walk(fn):
            if isinstance(n, ast.Name) and isinstance(n.ctx, ast.Store):
                stores[n.id] = stores.get(n.id, 0) + 1
            elif isinstance(n, ast.arg):
                stores[n.arg] = stores.get(n.arg, 0) + 1
        getters = {k: v for k, v in mod_getters.items() if k not in stores}
        for n in ast.walk(fn):
            if isinstance(n, ast.Assign) and len(n.targets) == 1 and \
                    isinstance(n.targets[0], ast.Name) and stores.get(
                        n.targets[0].id) == 1:
                g = _getter_of(n.value)
                if g:
                    getters[n.targets[0].id] = g

        class T(ast.NodeTransformer):
            def visit_Call(self, node):
                self.generic_visit(node)
                g = None
                if isinstance(node.func, ast.Name) and \
                        node.func.id in getters:
                    g = getters[node.func.id]
                elif isinstance(node.func, ast.Call):
                    g = _getter_of(node.func)
                if g and len(node.args) == 1 and not node.keywords and not \
                        isinstance(node.args[0], ast.Starred):
                    new = _apply_getter(g, node.args[0], node)
                    if new is not None:
                        return new
                return node
        if getters or any(isinstance(n, ast.Call) and isinstance(
                n.func, ast.Call) for n in ast.walk(fn)):
            T().visit(fn)
            ast.fix_missing_locations(fn)


def _chain_loops(tree):
    """``for x in itertools.chain(A, B): body`` is ``for x in A: body``
    followed by ``for x in B: body`` (no else, no break)."""
    for node in ast.walk(tree):
        for fld in ('body', 'orelse', 'finalbody'):
            blk = getattr(node, fld, None)
            if not (isinstance(blk, list) and blk and isinstance(
                    blk[0], ast.stmt)):
                continue
            i = 0
            while i < len(blk):
                st = blk[i]
                i += 1
                if not (isinstance(st, ast.For) and not st.orelse and
                        isinstance(st.iter, ast.Call) and ast.unparse(
                            st.iter.func) in ('itertools.chain', 'chain')
                        and 2 <= len(st.iter.args) <= 4 and not
                        st.iter.keywords and not any(isinstance(
                            a, ast.Starred) for a in st.iter.args)):
                    continue
                if any(isinstance(x, ast.Break) for x in ast.walk(st)):
                    continue
                new = []
                for a in st.iter.args:
                    lp = ast.For(target=_plain_copy(st.target), iter=a,
                                 body=_plain_copy(st.body), orelse=[])
                    new.append(ast.fix_missing_locations(
                        ast.copy_location(lp, st)))
                blk[i - 1:i] = new
                i += len(new) - 1


def _generator_loops(tree):
    """``g = (e for a in xs if c)`` ... ``for x in g: body`` (g bound once,
    read only there, in the same block) is ``for a in xs: if c: x = e;
    body``: walking a generator is walking what it walks."""
    for fn in ast.walk(tree):
        if not isinstance(fn, (ast.FunctionDef, ast.AsyncFunctionDef)):
            continue
        stores, loads = {}, {}
        for n in ast.walk(fn):
            if isinstance(n, ast.Name):
                d = stores if isinstance(n.ctx, (ast.Store, ast.Del)) \
                    else loads
                d[n.id] = d.get(n.id, 0) + 1
        for node in ast.walk(fn):
            for fld in ('body', 'orelse', 'finalbody'):
                blk = getattr(node, fld, None)
                if not (isinstance(blk, list) and blk and isinstance(
                        blk[0], ast.stmt)):
                    continue
                for st in list(blk):
                    if not (isinstance(st, ast.Assign) and len(
                            st.targets) == 1 and isinstance(
                                st.targets[0], ast.Name) and isinstance(
                                    st.value, (ast.GeneratorExp,
                                               ast.ListComp)) and len(
                                        st.value.generators) == 1):
                        continue
                    g = st.targets[0].id
                    if stores.get(g) != 1 or loads.get(g) != 1:
                        continue
                    j = blk.index(st)
                    loop = None
                    for later in blk[j + 1:]:
                        if isinstance(later, ast.For) and isinstance(
                                later.iter, ast.Name) and \
                                later.iter.id == g and isinstance(
                                    later.target, ast.Name):
                            loop = later
                            break
                        if any(isinstance(x, ast.Name) and x.id == g
                               for x in ast.walk(later)):
                            break
                    if loop is None:
                        continue
                    gen = st.value.generators[0]
                    inner_names = {x.id for x in ast.walk(gen.target)
                                   if isinstance(x, ast.Name)}
                    body_names = {x.id for x in ast.walk(loop)
                                  if isinstance(x, ast.Name)}
                    # the generator's own variable must not clash with a
                    # name the loop (or the function) uses otherwise
                    if inner_names & (body_names | {
                            k for k in stores if k not in inner_names and
                            False}):
                        continue
                    bind = ast.copy_location(ast.Assign(
                        targets=[ast.Name(id=loop.target.id,
                                          ctx=ast.Store())],
                        value=st.value.elt), loop)
                    new_body = [bind] + loop.body
                    for c in reversed(gen.ifs):
                        new_body = [ast.copy_location(ast.If(
                            test=c, body=new_body, orelse=[]), loop)]
                    tgt = gen.target
                    for x in ast.walk(tgt):
                        if isinstance(x, ast.Name):
                            x.ctx = ast.Store()
                    loop.target = tgt
                    loop.iter = gen.iter
                    loop.body = new_body
                    ast.fix_missing_locations(loop)
                    blk.remove(st)


def _flag_loops(tree):
    """``done = False`` / ``while c and not done: ... done = True`` (as the
    last thing an iteration does) / ``if not done: X`` is the loop that
    leaves with ``break`` and has X as its ``else``."""
    for fn in ast.walk(tree):
        if not isinstance(fn, (ast.FunctionDef, ast.AsyncFunctionDef)):
            continue
        for node in ast.walk(fn):
            for fld in ('body', 'orelse', 'finalbody'):
                blk = getattr(node, fld, None)
                if not (isinstance(blk, list) and len(blk) >= 2 and
                        isinstance(blk[0], ast.stmt)):
                    continue
                for i0 in range(len(blk) - 1):
                    a = blk[i0]
                    # the loop follows the flag's initialisation, plain
                    # assignments that do not mention the flag in between
                    i = i0
                    while i + 1 < len(blk) - 1 and isinstance(
                            blk[i + 1], ast.Assign) and isinstance(
                                a, ast.Assign) and len(a.targets) == 1 and \
                            isinstance(a.targets[0], ast.Name) and not any(
                                isinstance(x, ast.Name) and
                                x.id == a.targets[0].id
                                for x in ast.walk(blk[i + 1])):
                        i += 1
                    lp = blk[i + 1]
                    if not (isinstance(a, ast.Assign) and len(
                            a.targets) == 1 and isinstance(
                                a.targets[0], ast.Name) and isinstance(
                                    a.value, ast.Constant) and
                            a.value.value is False and isinstance(
                                lp, ast.While) and not lp.orelse):
                        continue
                    flag = a.targets[0].id
                    t = lp.test
                    conj = t.values if isinstance(t, ast.BoolOp) and \
                        isinstance(t.op, ast.And) else [t]
                    mine = [c for c in conj if isinstance(c, ast.UnaryOp)
                            and isinstance(c.op, ast.Not) and isinstance(
                                c.operand, ast.Name) and
                            c.operand.id == flag]
                    if len(mine) != 1 or len(conj) < 2:
                        continue
                    # every store of the flag inside the loop is a constant,
                    # the last statement of a tail block of the body
                    tails = [b for b in _tail_blocks(lp.body)]
                    sets = []
                    ok = True
                    for x in ast.walk(lp):
                        if isinstance(x, ast.Name) and x.id == flag and \
                                isinstance(x.ctx, ast.Store):
                            st = None
                            for b in tails:
                                if b and isinstance(b[-1], ast.Assign) and \
                                        any(x is y for y in ast.walk(b[-1])):
                                    st = (b, b[-1])
                            if st is None or not (isinstance(
                                    st[1].value, ast.Constant) and isinstance(
                                        st[1].value.value, bool)):
                                ok = False
                            else:
                                sets.append(st)
                    if not ok or not sets:
                        continue
                    # reads: the loop test and, at most, an if right after
                    reads = [x for x in ast.walk(fn) if isinstance(
                        x, ast.Name) and x.id == flag and isinstance(
                            x.ctx, ast.Load)]
                    after = blk[i + 2] if i + 2 < len(blk) else None
                    tail_if = None
                    if isinstance(after, ast.If) and not after.orelse and \
                            isinstance(after.test, ast.UnaryOp) and \
                            isinstance(after.test.op, ast.Not) and \
                            isinstance(after.test.operand, ast.Name) and \
                            after.test.operand.id == flag:
                        tail_if = after
                    if len(reads) != 1 + (1 if tail_if is not None else 0):
                        continue
                    stores = [x for x in ast.walk(fn) if isinstance(
                        x, ast.Name) and x.id == flag and isinstance(
                            x.ctx, ast.Store)]
                    if len(stores) != len(sets) + 1:
                        continue
                    for b, st in sets:
                        if st.value.value is True:
                            b[-1] = ast.copy_location(ast.Break(), st)
                        elif len(b) > 1:
                            del b[-1]
                        else:
                            b[-1] = ast.copy_location(ast.Pass(), st)
                    rest = [c for c in conj if c is not mine[0]]
                    lp.test = rest[0] if len(rest) == 1 else \
                        ast.copy_location(ast.BoolOp(op=ast.And(),
                                                     values=rest), t)
                    if tail_if is not None:
                        lp.orelse = tail_if.body
                        del blk[i + 2]
                    del blk[i0]
                    break


def _update_from_pairs(tree):
    """Statement ``d.update((k, v) for x in xs if c)`` (a generator or list
    comprehension of pairs) is ``for x in xs: if c: d[k] = v``."""
    for node in ast.walk(tree):
        for fld in ('body', 'orelse', 'finalbody'):
            blk = getattr(node, fld, None)
            if not (isinstance(blk, list) and blk and isinstance(
                    blk[0], ast.stmt)):
                continue
            for i, st in enumerate(blk):
                c = st.value if isinstance(st, ast.Expr) else None
                if not (isinstance(c, ast.Call) and isinstance(
                        c.func, ast.Attribute) and c.func.attr == 'update'
                        and isinstance(c.func.value, ast.Name) and len(
                            c.args) == 1 and not c.keywords and isinstance(
                                c.args[0], (ast.GeneratorExp, ast.ListComp))
                        and len(c.args[0].generators) == 1 and isinstance(
                            c.args[0].elt, ast.Tuple) and len(
                                c.args[0].elt.elts) == 2):
                    continue
                gen = c.args[0].generators[0]
                k, v = c.args[0].elt.elts
                store = ast.copy_location(ast.Assign(
                    targets=[ast.Subscript(value=c.func.value, slice=k,
                                           ctx=ast.Store())], value=v), st)
                body = [store]
                for cond in reversed(gen.ifs):
                    body = [ast.copy_location(
                        ast.If(test=cond, body=body, orelse=[]), st)]
                tgt = gen.target
                for x in ast.walk(tgt):
                    if isinstance(x, ast.Name):
                        x.ctx = ast.Store()
                loop = ast.copy_location(ast.For(
                    target=tgt, iter=gen.iter, body=body, orelse=[]), st)
                ast.fix_missing_locations(loop)
                blk[i] = loop


def _first_match(tree):
    """``found = next((e for x in xs if c), d)`` - directly, or through a
    name bound to the generator in the statement before and used nowhere
    else - is the search loop ``found = d; for x in xs: if c: found = e;
    break``."""
    for fn in ast.walk(tree):
        if not isinstance(fn, (ast.FunctionDef, ast.AsyncFunctionDef)):
            continue
        uses = {}
        for n in ast.walk(fn):
            if isinstance(n, ast.Name):
                uses[n.id] = uses.get(n.id, 0) + 1
        for node in ast.walk(fn):
            for fld in ('body', 'orelse', 'finalbody'):
                blk = getattr(node, fld, None)
                if not (isinstance(blk, list) and blk and isinstance(
                        blk[0], ast.stmt)):
                    continue
                i = 0
                while i < len(blk):
                    st = blk[i]
                    i += 1
                    if isinstance(st, ast.Return) and isinstance(
                            st.value, ast.Call) and isinstance(
                                st.value.func, ast.Name) and \
                            st.value.func.id == 'next' and len(
                                st.value.args) == 2 and not \
                            st.value.keywords and isinstance(
                                st.value.args[0], ast.GeneratorExp) and len(
                                    st.value.args[0].generators) == 1:
                        # return next((e for x in xs if c), d)
                        g_, dflt_ = st.value.args
                        gen_ = g_.generators[0]
                        body_ = [ast.copy_location(
                            ast.Return(value=g_.elt), st)]
                        for c_ in reversed(gen_.ifs):
                            body_ = [ast.copy_location(ast.If(
                                test=c_, body=body_, orelse=[]), st)]
                        tgt_ = gen_.target
                        for x_ in ast.walk(tgt_):
                            if isinstance(x_, ast.Name):
                                x_.ctx = ast.Store()
                        loop_ = ast.copy_location(ast.For(
                            target=tgt_, iter=gen_.iter, body=body_,
                            orelse=[]), st)
                        last_ = ast.copy_location(
                            ast.Return(value=dflt_), st)
                        ast.fix_missing_locations(loop_)
                        blk[i - 1:i] = [loop_, last_]
                        i += 1
                        continue
                    if not (isinstance(st, ast.Assign) and len(
                            st.targets) == 1 and isinstance(
                                st.targets[0], ast.Name) and isinstance(
                                    st.value, ast.Call) and isinstance(
                                        st.value.func, ast.Name) and
                            st.value.func.id == 'next' and len(
                                st.value.args) == 2 and
                            not st.value.keywords):
                        continue
                    g, dflt = st.value.args
                    prev = None
                    if isinstance(g, ast.Name) and i >= 2:
                        p_ = blk[i - 2]
                        if isinstance(p_, ast.Assign) and len(
                                p_.targets) == 1 and isinstance(
                                    p_.targets[0], ast.Name) and \
                                p_.targets[0].id == g.id and isinstance(
                                    p_.value, ast.GeneratorExp) and \
                                uses.get(g.id) == 2:
                            prev, g = p_, p_.value
                    if not (isinstance(g, ast.GeneratorExp) and len(
                            g.generators) == 1 and not
                            g.generators[0].is_async):
                        continue
                    gen = g.generators[0]
                    tname = st.targets[0].id
                    if tname in {x.id for x in ast.walk(g)
                                 if isinstance(x, ast.Name)}:
                        continue
                    hit = [ast.copy_location(ast.Assign(
                        targets=[ast.Name(id=tname, ctx=ast.Store())],
                        value=g.elt), st),
                        ast.copy_location(ast.Break(), st)]
                    body = hit
                    for c in reversed(gen.ifs):
                        body = [ast.copy_location(
                            ast.If(test=c, body=body, orelse=[]), st)]
                    tgt = gen.target
                    for x in ast.walk(tgt):
                        if isinstance(x, ast.Name):
                            x.ctx = ast.Store()
                    loop = ast.copy_location(ast.For(
                        target=tgt, iter=gen.iter, body=body, orelse=[]), st)
                    init = ast.copy_location(ast.Assign(
                        targets=[ast.Name(id=tname, ctx=ast.Store())],
                        value=dflt), st)
                    ast.fix_missing_locations(loop)
                    ast.fix_missing_locations(init)
                    lo = i - 2 if prev is not None else i - 1
                    blk[lo:i] = [init, loop]
                    i = lo + 2


FORWARD_SUBST = os.environ.get('PSA_FORWARD_SUBST', '0') == '1'


def _single_use_next(tree):
    """A local bound once and read once, by the statement that follows its
    binding in the same block, is the expression it was bound to."""
    for fn in ast.walk(tree):
        if not isinstance(fn, (ast.FunctionDef, ast.AsyncFunctionDef)):
            continue
        stores, loads = {}, {}
        for n in ast.walk(fn):
            if isinstance(n, ast.Name):
                d = stores if isinstance(n.ctx, (ast.Store, ast.Del)) \
                    else loads
                d[n.id] = d.get(n.id, 0) + 1
            elif isinstance(n, ast.arg):
                stores[n.arg] = stores.get(n.arg, 0) + 1
        changed = True
        while changed:
            changed = False
            for node in ast.walk(fn):
                for fld in ('body', 'orelse', 'finalbody'):
                    blk = getattr(node, fld, None)
                    if not (isinstance(blk, list) and blk and isinstance(
                            blk[0], ast.stmt)):
                        continue
                    for i, st in enumerate(blk[:-1]):
                        if not (isinstance(st, ast.Assign) and len(
                                st.targets) == 1 and isinstance(
                                    st.targets[0], ast.Name)):
                            continue
                        nm = st.targets[0].id
                        if stores.get(nm) != 1 or loads.get(nm) != 1:
                            continue
                        nxt = blk[i + 1]
                        # only the header of a compound statement
                        if isinstance(nxt, (ast.If, ast.While)):
                            roots = [nxt.test]
                        elif isinstance(nxt, ast.For):
                            roots = [nxt.iter]
                        elif isinstance(nxt, (ast.Assign, ast.Expr,
                                              ast.Return, ast.Raise,
                                              ast.AugAssign)):
                            roots = [nxt]
                        else:
                            continue
                        hit = [x for r in roots for x in ast.walk(r)
                               if isinstance(x, ast.Name) and x.id == nm
                               and isinstance(x.ctx, ast.Load)]
                        if len(hit) != 1 or any(isinstance(
                                x, (ast.Lambda, ast.GeneratorExp,
                                    ast.ListComp, ast.SetComp, ast.DictComp))
                                and any(y is hit[0] for y in ast.walk(x))
                                for r in roots for x in ast.walk(r)):
                            continue
                        for r in roots:
                            for x in ast.walk(r):
                                for f_, v in ast.iter_fields(x):
                                    if v is hit[0]:
                                        setattr(x, f_, st.value)
                                    elif isinstance(v, list):
                                        for k, y in enumerate(v):
                                            if y is hit[0]:
                                                v[k] = st.value
                        del blk[i]
                        loads[nm] = 0
                        changed = True
                        break


def _tuple_assigns(tree):
    """``a, b = x, y`` with plain names on the left, none of them read on
    the right, is ``a = x`` then ``b = y``."""
    for node in ast.walk(tree):
        for fld in ('body', 'orelse', 'finalbody'):
            blk = getattr(node, fld, None)
            if not (isinstance(blk, list) and blk and isinstance(
                    blk[0], ast.stmt)):
                continue
            i = 0
            while i < len(blk):
                st = blk[i]
                if isinstance(st, ast.Assign) and len(st.targets) == 1 and \
                        isinstance(st.targets[0], ast.Tuple) and isinstance(
                            st.value, ast.Tuple) and len(
                                st.targets[0].elts) == len(st.value.elts) \
                        and all(isinstance(t, ast.Name)
                                for t in st.targets[0].elts) and not any(
                            isinstance(v, ast.Starred)
                            for v in st.value.elts):
                    names = {t.id for t in st.targets[0].elts}
                    reads = {n.id for n in ast.walk(st.value)
                             if isinstance(n, ast.Name)}
                    if not (names & reads) and len(names) == len(
                            st.targets[0].elts):
                        new = []
                        for t, v in zip(st.targets[0].elts, st.value.elts):
                            a = ast.Assign(targets=[t], value=v)
                            ast.copy_location(a, st)
                            new.append(a)
                        blk[i:i + 1] = new
                        i += len(new)
                        continue
                i += 1


import re as _re

_INLINED = _re.compile(r'__i\d+$')
ALIAS_ALL = os.environ.get('PSA_ALIAS_ALL', '1') == '1'


def _is_inlined_name(nm):
    """Names the inliner introduced end in __i<N>."""
    return bool(_INLINED.search(nm))


def _single_aliases(tree):
    """Inside a function, ``b = a`` between two locals that are each bound
    exactly once (a may be a parameter) makes b another name for a: reads
    of b are reads of a."""
    for fn in ast.walk(tree):
        if not isinstance(fn, (ast.FunctionDef, ast.AsyncFunctionDef)):
            continue
        stores = {}
        special = set()
        a = fn.args
        for x in a.posonlyargs + a.args + a.kwonlyargs + [
                y for y in (a.vararg, a.kwarg) if y is not None]:
            stores[x.arg] = stores.get(x.arg, 0) + 1
        for n in ast.walk(fn):
            if n is fn:
                continue
            if isinstance(n, ast.Name) and isinstance(
                    n.ctx, (ast.Store, ast.Del)):
                stores[n.id] = stores.get(n.id, 0) + 1
            elif isinstance(n, (ast.Global, ast.Nonlocal)):
                special.update(n.names)
            elif isinstance(n, (ast.FunctionDef, ast.AsyncFunctionDef,
                                ast.ClassDef)):
                stores[n.name] = stores.get(n.name, 0) + 1
                if not isinstance(n, ast.ClassDef):
                    for x in ast.walk(n.args):
                        if isinstance(x, ast.arg):
                            # shadowing in a nested scope: leave alone
                            special.add(x.arg)
            elif isinstance(n, ast.ExceptHandler) and n.name:
                stores[n.name] = stores.get(n.name, 0) + 1
            elif isinstance(n, (ast.Import, ast.ImportFrom)):
                for al in n.names:
                    nm = (al.asname or al.name).split('.')[0]
                    stores[nm] = stores.get(nm, 0) + 1
        # a name read (textually) before its one binding carries a value
        # from an earlier loop iteration: not an alias
        pos = {}

        def _dfs(node, pos=pos):
            pos[id(node)] = len(pos)
            for ch in ast.iter_child_nodes(node):
                _dfs(ch)
        _dfs(fn)
        first_load = {}
        bind_at = {}
        for n in ast.walk(fn):
            if isinstance(n, ast.Name):
                if isinstance(n.ctx, ast.Load):
                    first_load[n.id] = min(first_load.get(n.id, 1 << 30),
                                           pos[id(n)])
                else:
                    bind_at[n.id] = pos[id(n)]
        for nm, at in bind_at.items():
            if first_load.get(nm, 1 << 30) < at:
                special.add(nm)
        # only straight-line statements of the function's own body blocks
        ren = {}
        aren = {}
        attr_stores = {n.attr for n in ast.walk(fn) if isinstance(
            n, ast.Attribute) and isinstance(n.ctx, (ast.Store, ast.Del))}
        for node in ast.walk(fn):
            for fld in ('body', 'orelse', 'finalbody'):
                blk = getattr(node, fld, None)
                if not (isinstance(blk, list) and blk and isinstance(
                        blk[0], ast.stmt)):
                    continue
                for st in list(blk):
                    if isinstance(st, ast.Assign) and len(
                            st.targets) == 1 and isinstance(
                                st.targets[0], ast.Name) and isinstance(
                                    st.value, ast.Name):
                        b, a_ = st.targets[0].id, st.value.id
                        if b != a_ and stores.get(b) == 1 and stores.get(
                                a_) == 1 and b not in special and \
                                a_ not in special and a_ not in ren:
                            ren[b] = ren.get(a_, a_)
                            blk.remove(st)
                            if not blk:
                                blk.append(ast.copy_location(ast.Pass(), st))
                    elif isinstance(st, ast.Assign) and len(
                            st.targets) == 1 and isinstance(
                                st.targets[0], ast.Name) and isinstance(
                                    st.value, ast.Attribute):
                        # b = a.x.y with a bound once and no attribute of
                        # those names stored anywhere in the function
                        b = st.targets[0].id
                        chain = []
                        root = st.value
                        while isinstance(root, ast.Attribute):
                            chain.append(root.attr)
                            root = root.value
                        if isinstance(root, ast.Name) and stores.get(
                                b) == 1 and stores.get(root.id, 0) <= 1 and \
                                b not in special and root.id not in special \
                                and root.id not in ren and root.id not in \
                                aren and not (set(chain) & attr_stores) and (
                                    _is_inlined_name(b) or ALIAS_ALL):
                            aren[b] = st.value
                            blk.remove(st)
                            if not blk:
                                blk.append(ast.copy_location(ast.Pass(), st))
        if ren:
            for n in ast.walk(fn):
                if isinstance(n, ast.Name) and n.id in ren and isinstance(
                        n.ctx, ast.Load):
                    n.id = ren[n.id]
        if aren:
            class _A(ast.NodeTransformer):
                def visit_Name(self, n):
                    if isinstance(n.ctx, ast.Load) and n.id in aren:
                        return ast.copy_location(_plain_copy(aren[n.id]), n)
                    return n
            _A().visit(fn)


def _leftmost_receiver(e):
    """The Name at the left end of a call / attribute / subscript chain."""
    while True:
        if isinstance(e, ast.Call):
            e = e.func
        elif isinstance(e, (ast.Attribute, ast.Subscript)):
            e = e.value
        else:
            break
    return e if isinstance(e, ast.Name) else None


def _rebinding_chains(tree):
    """``q = A`` directly followed by ``q = q.f(...)`` (q read nowhere else
    in the second statement) is ``q = A.f(...)``: a builder chain written in
    steps is the chain.  The receiver is evaluated before the arguments in
    both spellings."""
    for node in ast.walk(tree):
        for fld in ('body', 'orelse', 'finalbody'):
            blk = getattr(node, fld, None)
            if not (isinstance(blk, list) and blk and isinstance(
                    blk[0], ast.stmt)):
                continue
            i = 0
            while i + 1 < len(blk):
                a, b = blk[i], blk[i + 1]
                ok = isinstance(a, ast.Assign) and isinstance(
                    b, ast.Assign) and len(a.targets) == 1 and len(
                        b.targets) == 1 and isinstance(
                            a.targets[0], ast.Name) and isinstance(
                                b.targets[0], ast.Name) and \
                    a.targets[0].id == b.targets[0].id and isinstance(
                        b.value, ast.Call) and isinstance(
                            a.value, (ast.Call, ast.Attribute))
                if ok:
                    nm = a.targets[0].id
                    recv = _leftmost_receiver(b.value)
                    reads = [x for x in ast.walk(b.value) if isinstance(
                        x, ast.Name) and x.id == nm]
                    ok = recv is not None and recv.id == nm and len(
                        reads) == 1 and reads[0] is recv and not any(
                            isinstance(x, (ast.Lambda, ast.GeneratorExp,
                                           ast.ListComp, ast.SetComp,
                                           ast.DictComp, ast.Await,
                                           ast.Yield, ast.NamedExpr))
                            for x in ast.walk(b.value))
                if ok:
                    # put A where the receiver name stands
                    for x in ast.walk(b.value):
                        for f_, v in ast.iter_fields(x):
                            if v is recv:
                                setattr(x, f_, a.value)
                    del blk[i]
                    continue
                i += 1


def _partial_defs(tree):
    """A module-level ``name = functools.partial(f, a, b, k=v)`` whose f is a
    function of the same module with a plain parameter list is the function
    ``def name(<remaining parameters>): return f(a, b, <remaining>, k=v)``:
    callers, the call graph and the inliner then see an ordinary function."""
    if not isinstance(tree, ast.Module):
        return
    defs = dict((s.name, s) for s in tree.body
                if isinstance(s, ast.FunctionDef))
    for i, st in enumerate(tree.body):
        if not (isinstance(st, ast.Assign) and len(st.targets) == 1 and
                isinstance(st.targets[0], ast.Name) and
                isinstance(st.value, ast.Call)):
            continue
        c = st.value
        if ast.unparse(c.func) not in ('functools.partial', 'partial') or \
                not c.args or not isinstance(c.args[0], ast.Name):
            continue
        f = defs.get(c.args[0].id)
        if f is None or f.args.vararg or f.args.kwarg or \
                f.args.posonlyargs or f.args.kwonlyargs or any(
                    isinstance(a, ast.Starred) for a in c.args) or any(
                    k.arg is None for k in c.keywords):
            continue
        bound = c.args[1:]
        params = f.args.args
        given = set(k.arg for k in c.keywords)
        if len(bound) > len(params) or not given <= set(
                a.arg for a in params[len(bound):]):
            continue
        ndef = len(f.args.defaults)
        rest, defaults = [], []
        for j, a in enumerate(params):
            if j < len(bound) or a.arg in given:
                continue
            d = j - (len(params) - ndef)
            if d < 0 and defaults:
                break       # a parameter without default after a default
            rest.append(ast.arg(arg=a.arg))
            if d >= 0:
                defaults.append(_plain_copy(f.args.defaults[d]))
        else:
            call = ast.Call(
                func=ast.Name(id=f.name, ctx=ast.Load()),
                args=[_plain_copy(b) for b in bound] + [
                    ast.Name(id=a.arg, ctx=ast.Load()) for a in rest],
                keywords=[ast.keyword(arg=k.arg, value=_plain_copy(k.value))
                          for k in c.keywords])
            fn = ast.FunctionDef(
                name=st.targets[0].id,
                args=ast.arguments(posonlyargs=[], args=rest, vararg=None,
                                   kwonlyargs=[], kw_defaults=[],
                                   kwarg=None, defaults=defaults),
                body=[ast.copy_location(ast.Return(value=call), st)],
                decorator_list=[], returns=None, type_comment=None,
                type_params=[])
            ast.copy_location(fn, st)
            fn.end_lineno = getattr(st, 'end_lineno', st.lineno)
            tree.body[i] = ast.fix_missing_locations(fn)


def _decorator_callables(tree):
    """A decorator argument that names a module-level function whose body is
    one ``return <expression>`` is the lambda it abbreviates
    (``exception_checker=_is_duplicate(exc)`` style predicates)."""
    if not isinstance(tree, ast.Module):
        return
    defs = {}
    for s_ in tree.body:
        if isinstance(s_, ast.FunctionDef) and not s_.decorator_list:
            body = [b for b in s_.body if not (
                isinstance(b, ast.Expr) and isinstance(
                    b.value, ast.Constant))]
            if len(body) == 1 and isinstance(
                    body[0], ast.Return) and body[0].value is not None:
                defs[s_.name] = (s_, body[0].value)
    if not defs:
        return
    for f in ast.walk(tree):
        if not isinstance(f, (ast.FunctionDef, ast.AsyncFunctionDef)):
            continue
        for d in f.decorator_list:
            if not isinstance(d, ast.Call):
                continue
            for k in d.keywords:
                if isinstance(k.value, ast.Name) and k.value.id in defs:
                    fn, val = defs[k.value.id]
                    k.value = ast.copy_location(ast.Lambda(
                        args=_plain_copy(fn.args), body=_plain_copy(val)),
                        k.value)
                    ast.fix_missing_locations(k.value)


def _pure_test(e):
    if isinstance(e, ast.Compare):
        return _pure(e.left) and all(_pure(c) for c in e.comparators)
    if isinstance(e, ast.BoolOp):
        return all(_pure_test(v) or _pure(v) for v in e.values)
    if isinstance(e, ast.UnaryOp) and isinstance(e.op, ast.Not):
        return _pure_test(e.operand) or _pure(e.operand)
    return False


def _named_tests(tree):
    """``flag = <comparison>`` read once, by the test of the ``if`` that
    follows it directly, is that comparison written into the test (a
    condition given a name for the reader's sake)."""
    for fn in ast.walk(tree):
        if not isinstance(fn, (ast.FunctionDef, ast.AsyncFunctionDef)):
            continue
        uses = {}
        for x in ast.walk(fn):
            if isinstance(x, ast.Name):
                u = uses.setdefault(x.id, [0, 0])
                u[0 if isinstance(x.ctx, ast.Store) else 1] += 1
        for node in ast.walk(fn):
            for fld in ('body', 'orelse', 'finalbody'):
                blk = getattr(node, fld, None)
                if not (isinstance(blk, list) and len(blk) >= 2 and
                        isinstance(blk[0], ast.stmt)):
                    continue
                i = 0
                while i + 1 < len(blk):
                    a, nx = blk[i], blk[i + 1]
                    if isinstance(a, ast.Assign) and len(
                            a.targets) == 1 and isinstance(
                                a.targets[0], ast.Name) and isinstance(
                                    a.value, (ast.Compare, ast.BoolOp)) \
                            and isinstance(nx, ast.If) and uses.get(
                                a.targets[0].id) == [1, 1] and _pure_test(
                                    a.value):
                        nm = a.targets[0].id
                        hits = [x for x in ast.walk(nx.test) if isinstance(
                            x, ast.Name) and x.id == nm]
                        if len(hits) == 1:
                            nx.test = _SubstNames(
                                {nm: a.value}).visit(nx.test)
                            ast.fix_missing_locations(nx.test)
                            del blk[i]
                            continue
                    i += 1


def normalise(tree):
    """Canonical statement shapes, so that rules see one spelling of
    equivalent control flow (positions are kept; nothing is executed):

    1. ``if not c: A else: B``            ->  ``if c: B else: A``
    2. ``if c: <never falls through> else: B``  ->  ``if c: ...`` then B
       (guard-clause form; also applied after 1, so an if whose else branch
       never falls through becomes a guard on the negated test)
    3. ``if a: if b: X`` (no else on either, the inner if alone)
                                          ->  ``if a and b: X``
    4. in a loop body ``if c: continue`` + rest  ->  ``if not c: rest``
    Each step is semantics-preserving for any program."""
    _partial_defs(tree)
    _decorator_callables(tree)
    _quantifier_returns(tree)
    _first_match(tree)
    _unroll_table_loops(tree)
    _table_comprehensions(tree)
    _scope_blocks(tree)
    _getter_calls(tree)
    _chain_loops(tree)
    _generator_loops(tree)
    _flag_loops(tree)
    _update_from_pairs(tree)
    _plain_idioms(tree)
    _filtered_iteration(tree)
    _conditional_expressions(tree)
    _star_dict_calls(tree)
    _star_tuple_calls(tree)
    _tuple_assigns(tree)
    _named_tests(tree)
    _dead_constant_stores(tree)
    if FORWARD_SUBST:
        _single_use_next(tree)
    _bind_loop_iterables(tree)
    _single_aliases(tree)
    _rebinding_chains(tree)
    changed = True
    rounds = 0
    while changed and rounds < 50:
        changed = False
        rounds += 1
        for node in ast.walk(tree):
            for fld in ('body', 'orelse', 'finalbody'):
                blk = getattr(node, fld, None)
                if not (isinstance(blk, list) and blk and isinstance(
                        blk[0], ast.stmt)):
                    continue
                i = 0
                while i < len(blk):
                    st = blk[i]
                    if isinstance(st, ast.If):
                        t0 = src_dump(st.test)
                        st.test = _simplify_test(st.test)
                        if src_dump(st.test) != t0:
                            changed = True
                        if st.orelse and all(isinstance(x, ast.Pass)
                                             for x in st.body):
                            # ``if c: pass else: B`` is ``if not c: B``
                            st.test = _negate(st.test)
                            st.body, st.orelse = st.orelse, []
                            changed = True
                        t = st.test
                        elif_chain = len(st.orelse) == 1 and isinstance(
                            st.orelse[0], ast.If)
                        if st.orelse and isinstance(
                                t, ast.UnaryOp) and isinstance(
                                    t.op, ast.Not) and not elif_chain:
                            st.test = t.operand
                            st.body, st.orelse = st.orelse, st.body
                            changed = True
                        if st.orelse and not _falls_through(st.body):
                            rest = st.orelse
                            st.orelse = []
                            blk[i + 1:i + 1] = rest
                            changed = True
                        elif st.orelse and not _falls_through(
                                st.orelse) and not elif_chain and \
                                _falls_through(st.body):
                            # else branch is the guard
                            st.test = _negate(st.test)
                            rest = st.body
                            st.body = st.orelse
                            st.orelse = []
                            blk[i + 1:i + 1] = rest
                            changed = True
                        if not st.orelse and len(st.body) == 1 and \
                                isinstance(st.body[0], ast.If) and not \
                                st.body[0].orelse:
                            inner = st.body[0]
                            vals = []
                            for v in (st.test, inner.test):
                                if isinstance(v, ast.BoolOp) and isinstance(
                                        v.op, ast.And):
                                    vals.extend(v.values)
                                else:
                                    vals.append(v)
                            st.test = ast.copy_location(ast.BoolOp(
                                op=ast.And(), values=vals), st.test)
                            st.body = inner.body
                            changed = True
                    i += 1
            # 4. in a loop body, ``if c: continue`` followed by the rest of
            # the body  ->  ``if not c: <rest>``
            if isinstance(node, (ast.For, ast.While)):
                # the loop body and, recursively, every block that ends it:
                # the arms of a final if, the arms of a final try
                tails = list(_tail_blocks(node.body))
                for blk in tails:
                    # falling off the end of such a block is `continue`
                    if len(blk) > 1 and isinstance(blk[-1], ast.Continue):
                        del blk[-1]
                        changed = True
                    for i, st in enumerate(blk):
                        if isinstance(st, ast.If) and not st.orelse and len(
                                st.body) == 1 and isinstance(
                                    st.body[0], ast.Continue) and \
                                i + 1 < len(blk):
                            st.test = _negate(st.test)
                            st.body = blk[i + 1:]
                            del blk[i + 1:]
                            changed = True
                            break
            # 5. a flag set in every arm of a try / if and tested right
            # after it: the tested statements move into the arms
            for fld in ('body', 'orelse', 'finalbody'):
                blk = getattr(node, fld, None)
                if isinstance(blk, list) and blk and isinstance(
                        blk[0], ast.stmt) and _thread_flags(blk, tree):
                    changed = True
            # 6. ``try: A else: <break / continue / return constant>`` - the
            # else arm cannot raise: it is the end of the body
            if isinstance(node, ast.Try) and node.orelse and all(
                    isinstance(x, (ast.Break, ast.Continue, ast.Pass)) or (
                        isinstance(x, ast.Return) and (
                            x.value is None or isinstance(
                                x.value, ast.Constant)))
                    for x in node.orelse):
                node.body = node.body + node.orelse
                node.orelse = []
                changed = True
    ast.fix_missing_locations(tree)
    return tree


class Module(object):
    def __init__(self, name, path, relpath, src):
        self.name = name
        self.path = path
        self.relpath = relpath
        self.src = src
        self.tree = ast.parse(src, filename=path)
        if os.environ.get('PSA_NO_NORMALISE') != '1':
            normalise(self.tree)
        self.imports = {}      # alias -> dotted target
        self.functions = {}    # name -> [Func]
        self.classes = {}      # name -> Class
        self.assigns = {}      # name -> [ast.Assign/AugAssign nodes] in order
        self.consts = None     # filled by ConstEval
        self._link()

    def _link(self):
        for n in ast.walk(self.tree):
            for c in ast.iter_child_nodes(n):
                c._parent = n
        self.tree._parent = None

    def reset_after_rewrite(self):
        """The tree was rewritten (psa/inline.py): forget what was indexed
        from it."""
        if os.environ.get('PSA_NO_NORMALISE') != '1':
            normalise(self.tree)
        self.imports = {}
        self.functions = {}
        self.classes = {}
        self.assigns = {}
        self.consts = None
        self._link()

    def __repr__(self):
        return '<Module %s>' % self.name


def _module_name(relpath):
    p = relpath[:-3] if relpath.endswith('.py') else relpath
    parts = p.split(os.sep)
    if parts[-1] == '__init__':
        parts = parts[:-1]
    return '.'.join(parts)


class Program(object):
    """All service modules of /repo/placement (tests and DDL excluded)."""

    def __init__(self, repo='/repo', overlay=None, relocate=True):
        self.repo = repo
        self.overlay = overlay or {}
        self.relocate = relocate
        self.relocated = {}        # recorded qbase -> actual qbase
        self.modules = {}
        self.funcs = []            # every Func
        self.by_qname = {}
        self.by_qbase = {}         # qbase -> [Func]
        self.classes = {}          # dotted -> Class
        self._digest = hashlib.sha256()
        self._load()
        if self.relocate and os.environ.get('PSA_NO_INLINE') != '1':
            from psa import inline
            for m in self.modules.values():
                self._index_imports(m)
            k = inline.untuple_results(
                {mn: m.tree for mn, m in self.modules.items()},
                {mn: m.imports for mn, m in self.modules.items()})
            for m in self.modules.values():
                m.imports = {}
                if k:
                    m._link()
        self.new_constants = {}    # module -> names folded into their uses
        if self.relocate and os.environ.get('PSA_NO_INLINE') != '1':
            self._fold_new_constants()
        self._index()
        self.inlined = {}          # module -> number of expansions
        if self.relocate and os.environ.get('PSA_NO_INLINE') != '1':
            self._inline_new_code()
        self.consteval = ConstEval(self)

    # -- loading ---------------------------------------------------------
    def _load(self):
        root = os.path.join(self.repo, PKG)
        if not os.path.isdir(root):
            raise AnalysisError('no package directory %s' % root)
        seen = set()
        for dirpath, dirnames, filenames in os.walk(root):
            rel = os.path.relpath(dirpath, self.repo)
            parts = rel.split(os.sep)
            if 'tests' in parts:
                dirnames[:] = []
                continue
            if parts[-1] == 'versions' and 'alembic' in parts:
                dirnames[:] = []
                continue
            dirnames.sort()
            for fn in sorted(filenames):
                if not fn.endswith('.py'):
                    continue
                relpath = os.path.join(rel, fn)
                seen.add(relpath)
                path = os.path.join(dirpath, fn)
                if relpath in self.overlay:
                    src = self.overlay[relpath]
                else:
                    with open(path, encoding='utf-8') as fh:
                        src = fh.read()
                self._add(relpath, path, src)
        for relpath, src in self.overlay.items():
            if relpath not in seen and relpath.endswith('.py'):
                self._add(relpath, os.path.join(self.repo, relpath), src)

    def _add(self, relpath, path, src):
        self._digest.update(relpath.encode())
        self._digest.update(src.encode())
        try:
            m = Module(_module_name(relpath), path, relpath, src)
        except SyntaxError as e:
            raise AnalysisError('cannot parse %s: %s' % (relpath, e))
        self.modules[m.name] = m

    @property
    def digest(self):
        return self._digest.hexdigest()[:16]

    def read_text(self, relpath):
        """Non-Python inputs (docs) also honour the overlay."""
        if relpath in self.overlay:
            return self.overlay[relpath]
        p = os.path.join(self.repo, relpath)
        try:
            with open(p, encoding='utf-8') as fh:
                return fh.read()
        except OSError as e:
            raise AnalysisError('cannot read %s: %s' % (relpath, e))

    # -- indexing --------------------------------------------------------
    def _index(self):
        for m in self.modules.values():
            self._index_imports(m)
        for m in self.modules.values():
            self._index_defs(m)
        for f in self.funcs:
            for d in f.decorators:
                # a decorator spelled through a module-level alias
                # (_writer = db_api.placement_context_manager.writer) is the
                # decorator it names
                d.qname = self.resolve_alias(d.qname)
        self._build_name_index()
        if self.relocate:
            self._relocate()

    def _build_name_index(self):
        self.by_qbase = {}
        self.by_qname = {}
        for f in self.funcs:
            f.ordinal = 0
        for f in self.funcs:
            self.by_qbase.setdefault(f.qbase, []).append(f)
        for f in self.funcs:
            if f.qname in self.by_qname:
                # same window twice or unversioned redefinition: keep ordinal
                f.ordinal = len([g for g in self.by_qbase[f.qbase]
                                 if g.node.lineno < f.node.lineno])
            self.by_qname[f.qname] = f

    def _index_imports(self, m):
        for node in ast.walk(m.tree):
            if isinstance(node, ast.Import):
                for a in node.names:
                    if a.asname:
                        m.imports[a.asname] = a.name
                    else:
                        # "import a.b.c" binds "a"
                        top = a.name.split('.')[0]
                        m.imports.setdefault(top, top)
            elif isinstance(node, ast.ImportFrom):
                base = node.module or ''
                if node.level:
                    pkg = m.name.split('.')
                    if not m.relpath.endswith('__init__.py'):
                        pkg = pkg[:-1]
                    if node.level > 1:
                        pkg = pkg[:-(node.level - 1)]
                    base = '.'.join(pkg + ([base] if base else []))
                for a in node.names:
                    m.imports[a.asname or a.name] = '%s.%s' % (base, a.name)

    def _decorators(self, m, node, scope_func):
        out = []
        for d in node.decorator_list:
            if isinstance(d, ast.Call):
                q = self.dotted(m, d.func, scope_func)
                args = [self._lit(x) for x in d.args]
                kwargs = {k.arg: self._lit(k.value) for k in d.keywords
                          if k.arg}
                out.append(Decorator(q, d, args, kwargs))
            else:
                out.append(Decorator(self.dotted(m, d, scope_func), d))
        return out

    @staticmethod
    def _lit(node):
        try:
            return ast.literal_eval(node)
        except Exception:
            return node

    def _index_defs(self, m):
        def visit_body(body, cls, parent):
            for st in body:
                if isinstance(st, (ast.FunctionDef, ast.AsyncFunctionDef)):
                    f = Func(m, st, cls=cls, parent=parent)
                    f.decorators = self._decorators(m, st, parent)
                    self.funcs.append(f)
                    if parent is not None:
                        parent.nested.setdefault(f.name, []).append(f)
                    elif cls is not None:
                        cls.methods.setdefault(f.name, []).append(f)
                    else:
                        m.functions.setdefault(f.name, []).append(f)
                    visit_nested(st, f)
                elif isinstance(st, ast.ClassDef) and parent is None \
                        and cls is None:
                    c = Class(m, st)
                    c.bases = [self.dotted(m, b, None) for b in st.bases]
                    m.classes[c.name] = c
                    self.classes[c.dotted] = c
                    for s2 in st.body:
                        if isinstance(s2, ast.Assign):
                            for t in s2.targets:
                                if isinstance(t, ast.Name):
                                    c.attrs[t.id] = s2.value
                    visit_body(st.body, c, None)
                elif isinstance(st, (ast.If, ast.Try, ast.With, ast.For,
                                     ast.While)) and cls is None:
                    for fld in ('body', 'orelse', 'finalbody'):
                        visit_body(getattr(st, fld, []) or [], cls, parent)
                    for h in getattr(st, 'handlers', []) or []:
                        visit_body(h.body, cls, parent)
                if parent is None and cls is None:
                    if isinstance(st, ast.Assign):
                        for t in st.targets:
                            if isinstance(t, ast.Name):
                                m.assigns.setdefault(t.id, []).append(st)

        def visit_nested(fnode, f):
            # nested defs anywhere inside the function body (not inside
            # further nested defs: those are visited recursively)
            def walk(stmts):
                for st in stmts:
                    if isinstance(st, (ast.FunctionDef,
                                       ast.AsyncFunctionDef)):
                        g = Func(m, st, cls=None, parent=f)
                        g.decorators = self._decorators(m, st, f)
                        self.funcs.append(g)
                        f.nested.setdefault(g.name, []).append(g)
                        visit_nested(st, g)
                    elif isinstance(st, ast.ClassDef):
                        continue
                    else:
                        for fld in ('body', 'orelse', 'finalbody'):
                            walk(getattr(st, fld, []) or [])
                        for h in getattr(st, 'handlers', []) or []:
                            walk(h.body)
            walk(fnode.body)

        visit_body(m.tree.body, None, None)

    def _fold_new_constants(self):
        """A module-level name the reference tree does not have, bound once
        to a literal (or to % / + over literals and other such names), is
        replaced by its value where it is read: giving a literal a name does
        not change what the program does with it."""
        from psa import anchors
        globs = anchors.load_globals()
        if not globs:
            return
        consts = {}
        for mn, m in self.modules.items():
            known = set(globs.get(mn, ()))
            if mn not in globs:
                continue
            bound = {}
            for st in m.tree.body:
                for x in ast.walk(st) if not isinstance(
                        st, (ast.FunctionDef, ast.ClassDef)) else ():
                    if isinstance(x, ast.Name) and isinstance(
                            x.ctx, ast.Store):
                        bound[x.id] = bound.get(x.id, 0) + 1
            env = {}
            for st in m.tree.body:
                if isinstance(st, ast.Assign) and len(st.targets) == 1 and \
                        isinstance(st.targets[0], ast.Name):
                    nm = st.targets[0].id
                    if nm in known or bound.get(nm) != 1:
                        continue
                    v = _fold_literal(st.value, env)
                    if v is not None:
                        env[nm] = v
            # names rebound with global / inside functions as globals
            for n in ast.walk(m.tree):
                if isinstance(n, ast.Global):
                    for nm in n.names:
                        env.pop(nm, None)
            if env:
                consts[mn] = env
        if not consts:
            return
        for mn, m in self.modules.items():
            self._index_imports(m)
        for mn, m in self.modules.items():
            own = consts.get(mn, {})
            foreign = {al: consts[t] for al, t in m.imports.items()
                       if t in consts and t != mn}
            if own or foreign:
                k = _ConstSubst(own, foreign).run(m.tree)
                if k:
                    self.new_constants[mn] = k
                    m._link()
        for m in self.modules.values():
            m.imports = {}

    def _inline_new_code(self):
        """Expand calls of module-level functions the reference tree does
        not have (psa/inline.py), then index the program again."""
        from psa import anchors, inline
        table = anchors.load_table()
        if not table:
            return
        new = {}
        for f in self.funcs:
            if f.parent is None and f.qbase not in table \
                    and not getattr(f, 'relocated_from', None):
                new.setdefault(f.module.name, set()).add(
                    f.name if f.cls is None else '%s.%s' % (f.cls.name,
                                                            f.name))
        done = False
        ext = set()
        for m in self.modules.values():
            for n in ast.walk(m.tree):
                if isinstance(n, ast.Attribute):
                    ext.add(n.attr)
                elif isinstance(n, ast.ImportFrom):
                    ext.update(al.name for al in n.names)
        inline._EXTERNAL[0] = ext
        cms = {mn: inline.module_cms(self.modules[mn].tree, names)
               for mn, names in new.items()}
        cms = {mn: c for mn, c in cms.items() if c}
        for mn, m in self.modules.items():
            foreign = {}
            for alias, target in m.imports.items():
                if target in cms and target != mn:
                    foreign[alias] = (self.modules[target].tree, cms[target])
            names = new.get(mn, set())
            if not names and not foreign:
                continue
            k = inline.inline_module(m.tree, names, foreign)
            if k:
                self.inlined[mn] = k
                done = True
        if not done:
            return
        # a new method every call of which was expanded is dead code: nothing
        # refers to its name any more
        refs = {}
        for m in self.modules.values():
            for n in ast.walk(m.tree):
                if isinstance(n, ast.Attribute):
                    refs[n.attr] = refs.get(n.attr, 0) + 1
                elif isinstance(n, ast.Constant) and isinstance(
                        n.value, str) and n.value.isidentifier():
                    refs[n.value] = refs.get(n.value, 0) + 1
        for mn, names in new.items():
            if mn not in self.inlined:
                continue
            for st in self.modules[mn].tree.body:
                if isinstance(st, ast.ClassDef):
                    for x in list(st.body):
                        if isinstance(x, ast.FunctionDef) and '%s.%s' % (
                                st.name, x.name) in names and not refs.get(
                                    x.name) and not x.name.startswith('__') \
                                and len(st.body) > 1:
                            st.body.remove(x)
        for m in self.modules.values():
            if m.name in self.inlined:
                m.reset_after_rewrite()
            else:
                m.imports, m.functions, m.classes, m.assigns = {}, {}, {}, {}
        self.funcs = []
        self.classes = {}
        self.relocated = {}
        self._index()

    def _relocate(self):
        """Present moved / renamed functions under their recorded names
        (psa/anchors.py).  Top-level and class-level functions first, then
        nested ones (whose names depend on their parent's)."""
        from psa import anchors
        table = anchors.load_table()
        if not table:
            return
        for nested in (False, True, None):
            # None: what is still missing may have changed nesting level
            missing = [q for q in table if q not in self.by_qbase
                       and (nested is None or ('>' in q) == nested)]
            if not missing:
                continue
            extra = {q: fs for q, fs in self.by_qbase.items()
                     if q not in table and not any(
                         getattr(f, 'relocated_from', None) for f in fs)
                     and (nested is None or ('>' in q) == nested)}
            if not extra:
                continue
            m = anchors.match(missing, extra, table, cross=nested is None)
            for rec, act in m.items():
                for f in self.by_qbase[act]:
                    f._qbase = rec.split('@')[0] if False else rec
                    f.relocated_from = act
                self.relocated[rec] = act
            if m:
                for f in self.funcs:
                    if f.parent is not None and not getattr(
                            f, 'relocated_from', None):
                        f._qbase = None
                self._build_name_index()

    # -- name resolution ---------------------------------------------------
    def dotted(self, m, expr, scope_func=None):
        """Resolve an expression to a dotted qualified name, or None.

        ``alloc_obj.replace_all`` -> ``placement.objects.allocation.replace_all``
        Local names of the module resolve to ``<module>.<name>``.
        """
        parts = []
        e = expr
        while isinstance(e, ast.Attribute):
            parts.append(e.attr)
            e = e.value
        if not isinstance(e, ast.Name):
            return None
        parts.append(e.id)
        parts.reverse()
        head = parts[0]
        # nested function scope first
        f = scope_func
        while f is not None:
            if head in f.nested:
                return '%s>%s' % (f.qname, '.'.join(parts))
            if head in f.params or head in local_names(f):
                return None
            f = f.parent
        if head in m.imports:
            base = m.imports[head]
        elif head in m.functions or head in m.classes or head in m.assigns:
            base = '%s.%s' % (m.name, head)
        else:
            return '.'.join(parts) if head in _BUILTIN_NAMES else None
        return '.'.join([base] + parts[1:])

    def resolve_alias(self, dotted, depth=0):
        """Follow module-level aliases: ``m._writer`` where module m says
        ``_writer = db_api.placement_context_manager.writer`` (assigned once,
        value a plain dotted expression) resolves to what the value names.
        Any trailing attributes are kept."""
        if not dotted or '>' in dotted or depth > 5:
            return dotted
        parts = dotted.split('.')
        for i in range(len(parts) - 1, 0, -1):
            mod = '.'.join(parts[:i])
            m = self.modules.get(mod)
            if m is None:
                continue
            name, rest = parts[i], parts[i + 1:]
            if name in m.functions or name in m.classes:
                return dotted
            sts = m.assigns.get(name)
            if sts and len(sts) == 1 and isinstance(sts[0], ast.Assign) \
                    and isinstance(sts[0].value, (ast.Attribute, ast.Name)):
                tgt = self.dotted(m, sts[0].value)
                if tgt and tgt != dotted:
                    return self.resolve_alias('.'.join([tgt] + rest),
                                              depth + 1)
            return dotted
        return dotted

    def lookup(self, dotted):
        """Dotted name -> list of Func, a Class, a Module or None."""
        if dotted is None:
            return None
        if '>' in dotted:
            keys = (dotted.split('.')[0], dotted)
            fs = [f for f in self.funcs if f.qbase in keys
                  or getattr(f, 'relocated_from', None) in keys]
            return fs or None
        if dotted in self.modules:
            return self.modules[dotted]
        if dotted in self.classes:
            return self.classes[dotted]
        if '.' not in dotted:
            return None
        head, last = dotted.rsplit('.', 1)
        if head in self.modules:
            m = self.modules[head]
            if last in m.functions:
                return m.functions[last]
            if last in m.classes:
                return m.classes[last]
            # re-exported import
            if last in m.imports and m.imports[last] != dotted:
                return self.lookup(m.imports[last])
            return None
        if head in self.classes:
            return self.find_method(self.classes[head], last)
        return None

    def find_method(self, cls, name, _seen=None):
        _seen = _seen or set()
        if cls.dotted in _seen:
            return None
        _seen.add(cls.dotted)
        if name in cls.methods:
            return cls.methods[name]
        for b in cls.bases:
            bc = self.classes.get(b)
            if bc is not None:
                r = self.find_method(bc, name, _seen)
                if r:
                    return r
        return None

    def func(self, qname):
        """Exactly one function by qualified name (or qbase if unique)."""
        if qname in self.by_qname:
            return self.by_qname[qname]
        fs = self.by_qbase.get(qname)
        if fs and len(fs) == 1:
            return fs[0]
        raise AnalysisError('anchor function not found or ambiguous: %s'
                            % qname)

    def funcs_named(self, qbase):
        fs = self.by_qbase.get(qbase)
        if not fs:
            raise AnalysisError('anchor function not found: %s' % qbase)
        return fs

    def module(self, name):
        if name not in self.modules:
            raise AnalysisError('anchor module not found: %s' % name)
        return self.modules[name]

    def const(self, modname, name):
        return self.consteval.get(modname, name)

    def subclasses_of(self, dotted):
        """Dotted names of project classes that are (transitively) dotted."""
        out = set()
        changed = True
        out.add(dotted)
        while changed:
            changed = False
            for c in self.classes.values():
                if c.dotted not in out and any(b in out for b in c.bases):
                    out.add(c.dotted)
                    changed = True
        return out


_BUILTIN_NAMES = {
    'int', 'str', 'len', 'set', 'list', 'dict', 'tuple', 'bool', 'float',
    'sorted', 'any', 'all', 'max', 'min', 'sum', 'isinstance', 'getattr',
    'setattr', 'hasattr', 'enumerate', 'zip', 'range', 'hash', 'repr',
    'type', 'super', 'print', 'iter', 'next', 'map', 'filter', 'abs',
    'Exception', 'ValueError', 'TypeError', 'KeyError', 'IndexError',
    'UnicodeDecodeError', 'OverflowError', 'AttributeError',
    'NotImplementedError', 'BaseException', 'LookupError', 'ArithmeticError',
    'UnicodeError', 'StopIteration', 'RuntimeError', 'AssertionError',
    'frozenset', 'object', 'staticmethod', 'classmethod', 'property',
}


def local_names(f):
    """Names assigned (not nested defs) in function f's own body."""
    cached = getattr(f, '_locals', None)
    if cached is not None:
        return cached
    names = set()

    class V(ast.NodeVisitor):
        def visit_FunctionDef(self, n):
            if n is f.node:
                self.generic_visit(n)

        visit_AsyncFunctionDef = visit_FunctionDef

        def visit_Lambda(self, n):
            pass

        def visit_ClassDef(self, n):
            pass

        def visit_Name(self, n):
            if isinstance(n.ctx, (ast.Store, ast.Del)):
                names.add(n.id)

        def visit_ExceptHandler(self, n):
            if n.name:
                names.add(n.name)
            self.generic_visit(n)

    V().visit(f.node)
    f._locals = names
    return names


def own_nodes(fnode):
    """Yield AST nodes of a function body, not descending into nested
    function/class definitions or lambdas."""
    stack = list(reversed(fnode.body))
    while stack:
        n = stack.pop()
        yield n
        if isinstance(n, (ast.FunctionDef, ast.AsyncFunctionDef,
                          ast.ClassDef, ast.Lambda)):
            continue
        stack.extend(reversed(list(ast.iter_child_nodes(n))))


def own_nodes_of(node):
    """Like own_nodes for an arbitrary statement/expression node."""
    stack = [node]
    first = True
    while stack:
        n = stack.pop()
        yield n
        if not first and isinstance(n, (ast.FunctionDef,
                                        ast.AsyncFunctionDef, ast.ClassDef,
                                        ast.Lambda)):
            continue
        first = False
        stack.extend(reversed(list(ast.iter_child_nodes(n))))


def enclosing_stmt(node):
    n = node
    while n is not None and not isinstance(n, ast.stmt):
        n = getattr(n, '_parent', None)
    return n


def src(node):
    try:
        return ast.unparse(node)
    except Exception:
        return '<%s>' % type(node).__name__


# ---------------------------------------------------------------------------
# Constant evaluation of module-level initialisers
# ---------------------------------------------------------------------------

_NOFOLD = object()


def _fold_literal(e, env):
    """AST of the literal an initialiser denotes, or None."""
    if isinstance(e, ast.Constant) and isinstance(
            e.value, (str, int, float, bool, bytes)) or (
                isinstance(e, ast.Constant) and e.value is None):
        return e
    if isinstance(e, ast.Name) and e.id in env:
        return env[e.id]
    if isinstance(e, ast.Tuple) and isinstance(e.ctx, ast.Load):
        vs = [_fold_literal(x, env) for x in e.elts]
        if all(v is not None for v in vs):
            return ast.Tuple(elts=vs, ctx=ast.Load())
        return None
    if isinstance(e, ast.BinOp) and isinstance(e.op, (ast.Add, ast.Mod)):
        a, b = _fold_literal(e.left, env), _fold_literal(e.right, env)
        if a is None or b is None:
            return None
        try:
            va, vb = ast.literal_eval(a), ast.literal_eval(b)
            v = va + vb if isinstance(e.op, ast.Add) else va % vb
        except Exception:
            return None
        if isinstance(v, (str, int, float)):
            return ast.Constant(value=v)
        if isinstance(v, tuple):
            try:
                return ast.parse(repr(v), mode='eval').body
            except SyntaxError:
                return None
    return None


class _ConstSubst(ast.NodeTransformer):
    def __init__(self, own, foreign):
        self.own = own
        self.foreign = foreign
        self.shadow = [set()]
        self.count = 0

    def run(self, tree):
        self.visit(tree)
        if self.count:
            ast.fix_missing_locations(tree)
        return self.count

    def _scope(self, node):
        names = set()
        a = node.args
        for x in a.posonlyargs + a.args + a.kwonlyargs:
            names.add(x.arg)
        for x in (a.vararg, a.kwarg):
            if x is not None:
                names.add(x.arg)
        for n in ast.walk(node):
            if isinstance(n, ast.Name) and isinstance(n.ctx, ast.Store):
                names.add(n.id)
        self.shadow.append(self.shadow[-1] | names)
        self.generic_visit(node)
        self.shadow.pop()
        return node

    visit_FunctionDef = visit_AsyncFunctionDef = visit_Lambda = _scope

    def visit_ClassDef(self, node):
        names = set()
        for st in node.body:
            if isinstance(st, ast.Assign):
                for t in st.targets:
                    if isinstance(t, ast.Name):
                        names.add(t.id)
        # class-level names do not shadow inside methods, only in the body:
        # approximate by not substituting a name the class body rebinds
        self.shadow.append(self.shadow[-1] | names)
        self.generic_visit(node)
        self.shadow.pop()
        return node

    def visit_Name(self, node):
        if isinstance(node.ctx, ast.Load) and node.id in self.own and \
                node.id not in self.shadow[-1]:
            self.count += 1
            return ast.copy_location(_copy.deepcopy(self.own[node.id]), node)
        return node

    def visit_Attribute(self, node):
        if isinstance(node.ctx, ast.Load) and isinstance(
                node.value, ast.Name) and node.value.id in self.foreign \
                and node.value.id not in self.shadow[-1] and \
                node.attr in self.foreign[node.value.id]:
            self.count += 1
            return ast.copy_location(_copy.deepcopy(
                self.foreign[node.value.id][node.attr]), node)
        self.generic_visit(node)
        return node


class ConstEval(object):
    """Fold module-level initialisers in a closed subset of Python.

    Supported: literals, % and + on strings, tuples/lists/dicts/sets and
    comprehensions over evaluated values, copy.deepcopy/copy.copy, subscript
    stores, del, .append/.extend/.remove/.pop/.update/.join, references to
    other evaluated constants (also across modules), re.compile (kept as a
    record).  Calls to anything else are kept as symbolic CallRec.  This is
    constant folding over initialisers, not execution of the program.
    """

    def __init__(self, prog):
        self.prog = prog
        self.env = {}         # module name -> {name: value}
        self._busy = set()

    def module_env(self, modname):
        if modname in self.env:
            return self.env[modname]
        if modname not in self.prog.modules:
            return None
        if modname in self._busy:
            return {}
        self._busy.add(modname)
        m = self.prog.modules[modname]
        env = {}
        self.env[modname] = env
        for name, fs in m.functions.items():
            env[name] = Ref('%s.%s' % (m.name, name))
        for name, c in m.classes.items():
            env[name] = Ref(c.dotted)
        self._exec_body(m, m.tree.body, env)
        self._busy.discard(modname)
        return env

    def get(self, modname, name):
        env = self.module_env(modname)
        if env is None:
            raise AnalysisError('no module %s' % modname)
        if name not in env:
            raise AnalysisError('constant %s.%s not found' % (modname, name))
        return env[name]

    # statements
    def _exec_body(self, m, body, env):
        for st in body:
            try:
                self._exec(m, st, env)
            except _Unsupported as e:
                # poison the targets so users get an explicit Unknown
                for t in _store_names(st):
                    env[t] = Unknown('%s:%d %s' % (m.relpath, st.lineno, e))

    def _exec(self, m, st, env):
        if isinstance(st, ast.Assign):
            val = self._eval(m, st.value, env)
            for t in st.targets:
                self._store(m, t, val, env)
        elif isinstance(st, ast.AnnAssign) and st.value is not None:
            self._store(m, st.target, self._eval(m, st.value, env), env)
        elif isinstance(st, ast.AugAssign):
            cur = self._eval(m, _as_load(st.target), env)
            val = self._eval(m, st.value, env)
            self._store(m, st.target, self._binop(st.op, cur, val), env)
        elif isinstance(st, ast.Expr):
            if isinstance(st.value, ast.Call):
                self._eval(m, st.value, env)
        elif isinstance(st, ast.Delete):
            for t in st.targets:
                if isinstance(t, ast.Subscript):
                    obj = self._eval(m, t.value, env)
                    key = self._eval(m, t.slice, env)
                    if isinstance(obj, (dict, list)):
                        try:
                            del obj[key]
                        except Exception:
                            raise _Unsupported('del of missing key')
                    else:
                        raise _Unsupported('del on non-container')
                elif isinstance(t, ast.Name):
                    env.pop(t.id, None)
        elif isinstance(st, (ast.Import, ast.ImportFrom, ast.FunctionDef,
                             ast.AsyncFunctionDef, ast.ClassDef, ast.Pass,
                             ast.Global)):
            return
        elif isinstance(st, ast.If):
            # module-level conditionals (deploy.py profiler): not folded
            return
        elif isinstance(st, (ast.For, ast.While, ast.With, ast.Try)):
            return

    def _store(self, m, target, val, env):
        if isinstance(target, ast.Name):
            env[target.id] = val
        elif isinstance(target, ast.Subscript):
            obj = self._eval(m, target.value, env)
            key = self._eval(m, target.slice, env)
            if isinstance(obj, (dict, list)) and not isinstance(
                    key, (Unknown,)):
                try:
                    obj[key] = val
                except Exception:
                    raise _Unsupported('bad subscript store')
            else:
                raise _Unsupported('subscript store on non-container')
        elif isinstance(target, (ast.Tuple, ast.List)):
            if isinstance(val, (tuple, list)) and len(val) == len(
                    target.elts):
                for t, v in zip(target.elts, val):
                    self._store(m, t, v, env)
            else:
                raise _Unsupported('tuple unpack')
        elif isinstance(target, ast.Attribute):
            return
        else:
            raise _Unsupported('store target %s' % type(target).__name__)

    # expressions
    def _eval(self, m, e, env, loc=None):
        loc = loc or {}
        if isinstance(e, ast.Constant):
            return e.value
        if isinstance(e, ast.Name):
            if e.id in loc:
                return loc[e.id]
            if e.id in env:
                return env[e.id]
            if e.id in m.imports:
                tgt = m.imports[e.id]
                return self._resolve_dotted(tgt)
            if e.id in ('True', 'False', 'None'):
                return {'True': True, 'False': False, 'None': None}[e.id]
            return Ref(e.id)
        if isinstance(e, ast.Attribute):
            base = self._eval(m, e.value, env, loc)
            if isinstance(base, Ref):
                return self._resolve_dotted('%s.%s' % (base.qname, e.attr))
            if isinstance(base, _ModRef):
                return self._resolve_dotted('%s.%s' % (base.name, e.attr))
            return Unknown('attribute %s of %r' % (e.attr, type(base)))
        if isinstance(e, ast.Dict):
            d = {}
            for k, v in zip(e.keys, e.values):
                if k is None:
                    sub = self._eval(m, v, env, loc)
                    if isinstance(sub, dict):
                        d.update(sub)
                    else:
                        raise _Unsupported('dict splat')
                else:
                    kk = self._eval(m, k, env, loc)
                    if isinstance(kk, (Unknown, dict, list, set)):
                        raise _Unsupported('dict key not constant')
                    d[kk] = self._eval(m, v, env, loc)
            return d
        if isinstance(e, ast.List):
            return [self._eval(m, x, env, loc) for x in e.elts]
        if isinstance(e, ast.Tuple):
            return tuple(self._eval(m, x, env, loc) for x in e.elts)
        if isinstance(e, ast.Set):
            return set(self._eval(m, x, env, loc) for x in e.elts)
        if isinstance(e, ast.BinOp):
            return self._binop(e.op, self._eval(m, e.left, env, loc),
                               self._eval(m, e.right, env, loc))
        if isinstance(e, ast.UnaryOp):
            v = self._eval(m, e.operand, env, loc)
            if isinstance(v, (int, float, bool)):
                if isinstance(e.op, ast.USub):
                    return -v
                if isinstance(e.op, ast.Not):
                    return not v
            return Unknown('unary')
        if isinstance(e, ast.Subscript):
            obj = self._eval(m, e.value, env, loc)
            key = self._eval(m, e.slice, env, loc)
            try:
                if isinstance(obj, (dict, list, tuple, str)):
                    return obj[key]
            except Exception:
                pass
            return Unknown('subscript')
        if isinstance(e, ast.Slice):
            lo = self._eval(m, e.lower, env, loc) if e.lower else None
            hi = self._eval(m, e.upper, env, loc) if e.upper else None
            return slice(lo, hi)
        if isinstance(e, ast.JoinedStr):
            return Unknown('f-string')
        if isinstance(e, (ast.ListComp, ast.SetComp, ast.GeneratorExp,
                          ast.DictComp)):
            return self._comp(m, e, env, loc)
        if isinstance(e, ast.Call):
            return self._call(m, e, env, loc)
        if isinstance(e, ast.Lambda):
            return Unknown('lambda')
        if isinstance(e, ast.IfExp):
            t = self._eval(m, e.test, env, loc)
            if isinstance(t, (bool, int, str, type(None))):
                return self._eval(m, e.body if t else e.orelse, env, loc)
            return Unknown('ifexp')
        if isinstance(e, ast.Compare) or isinstance(e, ast.BoolOp):
            return Unknown('bool')
        return Unknown(type(e).__name__)

    def _binop(self, op, a, b):
        if isinstance(a, (Unknown, Ref, CallRec)) or isinstance(
                b, (Unknown, Ref, CallRec)):
            return Unknown('binop on symbolic')
        try:
            if isinstance(op, ast.Mod):
                return a % b
            if isinstance(op, ast.Add):
                return a + b
            if isinstance(op, ast.Sub):
                return a - b
            if isinstance(op, ast.Mult):
                return a * b
            if isinstance(op, ast.BitOr):
                return a | b
        except Exception:
            pass
        return Unknown('binop')

    def _comp(self, m, e, env, loc):
        gens = e.generators

        def rec(i, loc2, out):
            if i == len(gens):
                if isinstance(e, ast.DictComp):
                    out.append((self._eval(m, e.key, env, loc2),
                                self._eval(m, e.value, env, loc2)))
                else:
                    out.append(self._eval(m, e.elt, env, loc2))
                return
            g = gens[i]
            it = self._eval(m, g.iter, env, loc2)
            if isinstance(it, dict):
                it = list(it)
            if not isinstance(it, (list, tuple, set)):
                raise _Unsupported('comprehension over non-constant')
            for x in it:
                loc3 = dict(loc2)
                self._bind(g.target, x, loc3)
                ok = True
                for cond in g.ifs:
                    c = self._eval(m, cond, env, loc3)
                    if isinstance(c, Unknown):
                        raise _Unsupported('comprehension condition')
                    if not c:
                        ok = False
                if ok:
                    rec(i + 1, loc3, out)
        out = []
        rec(0, dict(loc), out)
        if isinstance(e, ast.DictComp):
            return dict(out)
        if isinstance(e, ast.SetComp):
            return set(out)
        return out

    def _bind(self, target, val, loc):
        if isinstance(target, ast.Name):
            loc[target.id] = val
        elif isinstance(target, (ast.Tuple, ast.List)):
            for t, v in zip(target.elts, val):
                self._bind(t, v, loc)

    def _call(self, m, e, env, loc):
        f = e.func
        # method calls on evaluated containers
        if isinstance(f, ast.Attribute):
            recv = self._eval(m, f.value, env, loc)
            args = [self._eval(m, a, env, loc) for a in e.args]
            name = f.attr
            if isinstance(recv, list):
                if name == 'append' and len(args) == 1:
                    recv.append(args[0])
                    return None
                if name == 'extend' and len(args) == 1 and isinstance(
                        args[0], (list, tuple)):
                    recv.extend(args[0])
                    return None
                if name == 'remove' and len(args) == 1:
                    try:
                        recv.remove(args[0])
                    except ValueError:
                        raise _Unsupported('remove of missing element')
                    return None
                if name == 'pop':
                    return recv.pop(*args)
                if name == 'sort':
                    return None
            if isinstance(recv, dict):
                if name == 'update' and len(args) <= 1 and all(
                        isinstance(a_, dict) for a_ in args):
                    kw = {k.arg: self._eval(m, k.value, env, loc)
                          for k in e.keywords if k.arg}
                    if all(k.arg for k in e.keywords):
                        for a_ in args:
                            recv.update(a_)
                        recv.update(kw)
                        return None
                if name == 'pop' and args:
                    return recv.pop(*args)
                if name == 'get' and args:
                    return recv.get(*args)
                if name in ('keys', 'values', 'items') and not args:
                    return list(getattr(recv, name)())
            if isinstance(recv, str):
                if name == 'join' and len(args) == 1 and isinstance(
                        args[0], (list, tuple)):
                    if all(isinstance(x, str) for x in args[0]):
                        return recv.join(args[0])
                if name == 'format':
                    try:
                        return recv.format(*args)
                    except Exception:
                        return Unknown('format')
        q = self._callee_name(m, f, env, loc)
        args = []
        for a in e.args:
            if isinstance(a, ast.Starred):
                sv = self._eval(m, a.value, env, loc)
                if not isinstance(sv, (list, tuple)):
                    raise _Unsupported('*%s' % src(a.value))
                args.extend(sv)
            else:
                args.append(self._eval(m, a, env, loc))
        kwargs = {k.arg: self._eval(m, k.value, env, loc)
                  for k in e.keywords if k.arg}
        if q in ('copy.deepcopy', 'copy.copy') and len(args) == 1:
            if q == 'copy.deepcopy':
                return _copy.deepcopy(args[0])
            return _copy.copy(args[0])
        if q in ('dict',) and not args:
            return dict(kwargs)
        if q in ('dict',) and len(args) == 1 and isinstance(args[0], dict):
            d_ = dict(args[0])
            d_.update(kwargs)
            return d_
        if q in ('list', 'tuple', 'set') and len(args) <= 1:
            if not args:
                return {'list': list, 'tuple': tuple, 'set': set}[q]()
            if isinstance(args[0], (list, tuple, set, dict)):
                return {'list': list, 'tuple': tuple, 'set': set}[q](args[0])
        if q == 'str' and len(args) == 1 and isinstance(
                args[0], (str, int, float)):
            return str(args[0])
        folded = self._fold_factory(q, args, kwargs, loc)
        if folded is not _NOFOLD:
            return folded
        return CallRec(q, args, kwargs, e)

    def _fold_factory(self, q, args, kwargs, loc):
        """A call of a project function whose whole body is ``return
        <expression>`` (a constructor helper such as a rule or schema
        factory) folds to that expression with the parameters bound: still
        constant folding, no statement of the program is executed."""
        if not q or '.' not in q or getattr(self, '_fold_depth', 0) > 4:
            return _NOFOLD
        head, last = q.rsplit('.', 1)
        fm = self.prog.modules.get(head)
        if fm is None or last not in fm.functions:
            return _NOFOLD
        fs = fm.functions[last]
        if len(fs) != 1 or fs[0].decorators:
            return _NOFOLD
        fn = fs[0].node
        body = list(fn.body)
        if body and isinstance(body[0], ast.Expr) and isinstance(
                body[0].value, ast.Constant):
            body = body[1:]
        if len(body) != 1 or not isinstance(body[0], ast.Return) or \
                body[0].value is None:
            return _NOFOLD
        a = fn.args
        if a.kwarg or a.posonlyargs:
            return _NOFOLD
        names = [x.arg for x in a.args]
        extra = None
        if len(args) > len(names):
            if not a.vararg:
                return _NOFOLD
            extra = tuple(args[len(names):])
            args = args[:len(names)]
        elif a.vararg:
            extra = ()
        menv = self.module_env(head)
        if menv is None:
            return _NOFOLD
        env2 = dict(menv)
        bound = dict(zip(names, args))
        for k, v in kwargs.items():
            if k not in names and k not in [x.arg for x in a.kwonlyargs]:
                return _NOFOLD
            bound[k] = v
        defaults = dict(zip(names[len(names) - len(a.defaults):],
                            a.defaults))
        for x, d in zip(a.kwonlyargs, a.kw_defaults):
            if d is not None:
                defaults[x.arg] = d
        self._fold_depth = getattr(self, '_fold_depth', 0) + 1
        try:
            for nme in names + [x.arg for x in a.kwonlyargs]:
                if nme not in bound:
                    if nme not in defaults:
                        return _NOFOLD
                    bound[nme] = self._eval(fm, defaults[nme], menv, loc)
            env2.update(bound)
            if a.vararg:
                env2[a.vararg.arg] = extra
            return self._eval(fm, body[0].value, env2, loc)
        except _Unsupported:
            return _NOFOLD
        finally:
            self._fold_depth -= 1

    def _callee_name(self, m, f, env, loc):
        v = None
        if isinstance(f, ast.Name):
            if f.id in m.imports:
                return m.imports[f.id]
            if f.id in env and isinstance(env[f.id], Ref):
                return env[f.id].qname
            return f.id
        if isinstance(f, ast.Attribute):
            v = self._eval(m, f, env, loc)
            if isinstance(v, Ref):
                return v.qname
            d = self.prog.dotted(m, f)
            return d or src(f)
        return src(f)

    def _resolve_dotted(self, dotted):
        """A dotted name -> evaluated constant, module ref or Ref."""
        if dotted in self.prog.modules:
            return _ModRef(dotted)
        if '.' in dotted:
            head, last = dotted.rsplit('.', 1)
            if head in self.prog.modules:
                env = self.module_env(head)
                if env is not None and last in env:
                    return env[last]
                hm = self.prog.modules[head]
                if last in hm.imports:
                    return self._resolve_dotted(hm.imports[last])
            if head in self.prog.classes:
                c = self.prog.classes[head]
                if last in c.attrs:
                    try:
                        return self._eval(c.module, c.attrs[last],
                                          self.module_env(c.module.name))
                    except _Unsupported:
                        return Unknown('class attr')
        # package prefix of a known module ("placement.policies")
        pref = dotted + '.'
        if any(k.startswith(pref) for k in self.prog.modules):
            return _ModRef(dotted)
        return Ref(dotted)


class _ModRef(object):
    def __init__(self, name):
        self.name = name

    def __repr__(self):
        return 'ModRef(%s)' % self.name

    def __deepcopy__(self, memo):
        return self


class _Unsupported(Exception):
    pass


def _as_load(t):
    t2 = _copy.deepcopy(t)
    for n in ast.walk(t2):
        if hasattr(n, 'ctx'):
            n.ctx = ast.Load()
    return t2


def _store_names(st):
    out = []
    for n in ast.walk(st):
        if isinstance(n, ast.Name) and isinstance(n.ctx, ast.Store):
            out.append(n.id)
    return out
