"""Runner: builds the model, runs a property's rules, reports."""
import importlib
import json
import os
import sys
import time
import traceback

from psa import model, report


class Ctx(object):
    """Lazily built shared analyses over one Program."""

    def __init__(self, repo='/repo', overlay=None, tier='quick'):
        self.repo = repo
        self.tier = tier
        self.prog = model.Program(repo, overlay)
        self._cg = self._ef = self._rs = self._gt = None

    @property
    def cg(self):
        if self._cg is None:
            from psa import callgraph
            self._cg = callgraph.CallGraph(self.prog)
        return self._cg

    @property
    def effects(self):
        if self._ef is None:
            from psa import effects
            self._ef = effects.Effects(self.prog, self.cg)
        return self._ef

    @property
    def raises(self):
        if self._rs is None:
            from psa import raises
            self._rs = raises.Raises(self.prog, self.cg)
        return self._rs

    @property
    def gates(self):
        if self._gt is None:
            from psa import gates
            self._gt = gates.Gates(self.prog, self.cg)
        return self._gt

    def model_stats(self):
        st = {'modules': len(self.prog.modules),
              'functions': len(self.prog.funcs),
              'digest': self.prog.digest}
        if self._cg is not None:
            st['call_sites'] = self._cg.stats()
        if self.prog.relocated:
            st['relocated_functions'] = dict(self.prog.relocated)
        if self.prog.inlined:
            st['inlined_new_helpers'] = dict(self.prog.inlined)
        if self.prog.new_constants:
            st['folded_new_constants'] = dict(self.prog.new_constants)
        return st


PROPS = ['C01', 'C02', 'C03', 'C04', 'C05', 'C06', 'C07', 'C08', 'C09', 'C10', 'C11',
         'C12', 'C13', 'C14', 'C15', 'C16', 'C17', 'C18', 'C19', 'C20']


def rules_module(prop):
    return importlib.import_module('psa.rules.%s' % prop.lower())


def run_rules(prop, ctx):
    mod = rules_module(prop)
    rec = report.Recorder(prop)
    mod.run(ctx, rec)
    if os.environ.get('PSA_DEBUG'):
        for o in rec.failed:
            print('  DEBUG-FAILED %s %s at %s:%s\n     expected: %s\n'
                  '     found: %s' % (o.rule, o.construct, o.file, o.line,
                                     o.expected, o.found))
    rec.check_floors()
    return rec, mod


def _failed_keys(rec):
    return {(o.rule, o.construct) for o in rec.failed}


def run_control(args):
    """Worker: one in-memory mutant. Returns a result dict."""
    prop, repo, ctl, base_failed = args
    t0 = time.time()
    res = {'id': ctl['id'], 'kind': 'benign' if ctl.get('benign') else
           'mutant', 'expect': ctl.get('expect')}
    try:
        overlay = {}
        for ed in ctl['edits']:
            path = os.path.join(repo, ed['file'])
            cur = overlay.get(ed['file'])
            if cur is None:
                with open(path, encoding='utf-8') as fh:
                    cur = fh.read()
            n = cur.count(ed['old'])
            if n != 1:
                res['status'] = 'anchor-lost'
                res['detail'] = '%s: control anchor occurs %d times' % (
                    ed['file'], n)
                return res
            overlay[ed['file']] = cur.replace(ed['old'], ed['new'], 1)
        ctx = Ctx(repo, overlay)
        try:
            rec, _ = run_rules(prop, ctx)
            new = sorted(_failed_keys(rec) - set(map(tuple, base_failed)))
            err = None
        except model.AnalysisError as e:
            new = []
            err = str(e)
        res['new_failures'] = [list(x) for x in new][:8]
        if ctl.get('benign'):
            if err:
                res['status'] = 'benign-analysis-error'
                res['detail'] = err
            else:
                res['status'] = 'ok' if not new else 'false-alarm'
        else:
            exp = ctl['expect']
            hit = [x for x in new if x[0] == exp or x[0].startswith(exp)]
            if hit:
                res['status'] = 'ok'
            elif err and ctl.get('accept_analysis_error'):
                res['status'] = 'ok'
                res['detail'] = 'fail-closed: ' + err
            else:
                res['status'] = 'missed'
                if err:
                    res['detail'] = err
    except Exception:
        res['status'] = 'crash'
        res['detail'] = traceback.format_exc()[-800:]
    res['wall_s'] = round(time.time() - t0, 2)
    return res


def run_controls(prop, repo, base_failed, jobs=16):
    from psa import controls
    ctls = controls.CONTROLS.get(prop, [])
    if not ctls:
        return []
    args = [(prop, repo, c, [list(x) for x in base_failed]) for c in ctls]
    import multiprocessing
    with multiprocessing.Pool(min(jobs, len(args))) as pool:
        return pool.map(run_control, args)


def main(argv):
    import argparse
    ap = argparse.ArgumentParser()
    ap.add_argument('prop')
    ap.add_argument('--tier', default=os.environ.get('VERIF_TIER', 'quick'))
    ap.add_argument('--repo', default='/repo')
    ap.add_argument('--replay')
    ap.add_argument('--no-evidence', action='store_true')
    a = ap.parse_args(argv)
    prop = a.prop.upper()
    tier = a.tier if a.tier in ('quick', 'thorough') else 'quick'
    try:
        seed = int(os.environ.get('VERIF_SEED', '0'))
    except ValueError:
        seed = 0
    t0 = time.time()
    try:
        if prop not in PROPS:
            print('ANALYSIS-ERROR property=%s not claimed' % prop)
            return 2
        ctx = Ctx(a.repo, tier=tier)
        rec, mod = run_rules(prop, ctx)
        known = report.load_known()
        hits, new = report.split_known(prop, rec.failed, known)
        controls = []
        if tier == 'thorough' and not new:
            controls = run_controls(prop, a.repo, _failed_keys(rec))
            skipped = [c for c in controls if c['status'] == 'anchor-lost']
            for c in skipped:
                # the tree differs from the one the control was written
                # for: the control cannot be applied, which says nothing
                # about the property
                print('CONTROL-SKIPPED %s %s' % (c['id'], c.get('detail')))
            if controls and len(skipped) * 2 > len(controls):
                raise model.AnalysisError(
                    'more than half of the controls lost their anchors')
            bad = [c for c in controls
                   if c['status'] not in ('ok', 'anchor-lost')]
            if bad:
                for c in bad:
                    print('CONTROL-FAILED %s %s %s' % (
                        c['id'], c['status'], c.get('detail', '')))
                raise model.AnalysisError(
                    '%d control(s) did not behave: %s' % (
                        len(bad), ', '.join(c['id'] for c in bad)))
        wall = time.time() - t0
        extra = {'explanation': getattr(mod, 'EXPLANATION', ''),
                 'assumptions': list(getattr(mod, 'ASSUMPTIONS', [])),
                 'model': ctx.model_stats()}
        if not a.no_evidence:
            report.write_evidence(prop, tier, seed, rec, wall, extra,
                                  len(new), controls)
        print('%s %s: %d obligations, %d discharged, %d known, %d new; '
              'model %s; %.1fs' % (
                  prop, tier, len(rec.obs), len(rec.obs) - len(rec.failed),
                  len(hits), len(new), ctx.prog.digest, wall))
        for rq, aq in sorted(ctx.prog.relocated.items()):
            print('  NOTE function %s is analysed as %s (moved/renamed)'
                  % (aq, rq))
        for mn, k in sorted(ctx.prog.inlined.items()):
            print('  NOTE %d call(s) of functions new to %s were expanded '
                  'in place' % (k, mn))
        for mn, k in sorted(ctx.prog.new_constants.items()):
            print('  NOTE %d read(s) of module-level literals new to %s were '
                  'replaced by the literal' % (k, mn))
        for r, fl in sorted(rec.floors.items()):
            print('  %-8s instances %d (floor %d)' % (
                r, rec.instances.get(r, 0), fl))
        if tier == 'thorough':
            print('  controls: %d ok, %d skipped' % (
                len([c for c in controls if c['status'] == 'ok']),
                len([c for c in controls if c['status'] != 'ok'])))
        for o, k in hits:
            print('KNOWN-FINDING: property=%s %s %s — %s' % (
                prop, o.rule, o.construct, k.get('what', '')))
        if new:
            for o in new:
                print('  FAILED %s %s at %s:%s\n     expected: %s\n     '
                      'found: %s' % (o.rule, o.construct, o.file, o.line,
                                     o.expected, o.found))
                if o.path:
                    for step in o.path:
                        print('       via %s' % step)
            p = report.write_replay(prop, new, scratch=a.no_evidence)
            print('VIOLATION property=%s replay=%s' % (prop, p))
            return 1
        if not a.no_evidence:
            # a replay file describes the violation of the last run: none
            # after a run that found none
            report.clear_replay(prop)
        return 0
    except model.AnalysisError as e:
        print('ANALYSIS-ERROR property=%s %s' % (prop, e))
        return 2
    except Exception:
        print('ANALYSIS-ERROR property=%s internal error' % prop)
        traceback.print_exc()
        return 2


if __name__ == '__main__':
    sys.exit(main(sys.argv[1:]))
