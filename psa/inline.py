"""Inlining of code the reference tree does not have.

A behaviour-preserving change often *adds* a function: a block extracted
into a helper, a long function split into steps, a try/except turned into a
context manager.  The rules reason about the functions of the reference tree
(psa/tables/anchors.json); code that moved into a new helper would be
invisible to a rule that looks at the caller's body.  Before the program is
indexed, calls of module-level functions that are *new* (neither recorded
nor matched as a moved/renamed recorded function) are therefore expanded in
place, for the shapes where the expansion is exact:

* ``with cm():`` where cm is a new ``@contextlib.contextmanager`` function of
  the same module whose body is ``try: yield`` + except clauses becomes that
  ``try`` around the block;
* a call of a new single-exit helper (no return except as its last
  statement, no yield, no star arguments, not recursive) that is the whole
  value of an expression / assignment / return statement becomes the
  helper's statements with parameters bound to the arguments and locals
  renamed apart;
* a call of a new helper whose body is one ``return <expr>`` is replaced by
  that expression wherever it occurs;
* any other call of a single-exit helper inside a simple statement is first
  hoisted into an assignment in front of the statement (this keeps the
  order of effects between statements; inside the one statement the call is
  evaluated first, which is an approximation the rules do not depend on).

The helper definitions stay in the module and are analysed as functions of
their own as well.  On the reference tree nothing is new and nothing is
inlined.  A mutation that hides a defect in a new helper is inlined just the
same, so the rules see it where the caller used to have the code."""
import ast

_COUNTER = [0]


def copy_node(node):
    if isinstance(node, list):
        return [copy_node(x) for x in node]
    if not isinstance(node, ast.AST):
        return node
    new = type(node)()
    for fld in node._fields:
        if hasattr(node, fld):
            setattr(new, fld, copy_node(getattr(node, fld)))
    for a in ('lineno', 'col_offset', 'end_lineno', 'end_col_offset'):
        if hasattr(node, a):
            setattr(new, a, getattr(node, a))
    return new


def _body_without_doc(fn):
    body = list(fn.body)
    if body and isinstance(body[0], ast.Expr) and isinstance(
            body[0].value, ast.Constant) and isinstance(
                body[0].value.value, str):
        body = body[1:]
    return body


def _own_walk(stmts):
    """Nodes of the statements, not descending into nested defs/lambdas."""
    stack = list(stmts)
    while stack:
        n = stack.pop()
        yield n
        if isinstance(n, (ast.FunctionDef, ast.AsyncFunctionDef,
                          ast.ClassDef, ast.Lambda)):
            continue        # a nested def among the statements themselves
        for c in ast.iter_child_nodes(n):
            if isinstance(c, (ast.FunctionDef, ast.AsyncFunctionDef,
                              ast.ClassDef, ast.Lambda)):
                continue
            stack.append(c)


def _closed_lambda(n, fn):
    """A lambda that reads none of the enclosing function's own names (its
    parameters and locals): renaming those locals cannot touch it."""
    if not isinstance(n, ast.Lambda):
        return False
    own = {a.arg for a in ast.walk(fn.args) if isinstance(a, ast.arg)}
    for x in ast.walk(fn):
        if isinstance(x, ast.Name) and isinstance(x.ctx, ast.Store):
            own.add(x.id)
    lam_params = {a.arg for a in ast.walk(n.args) if isinstance(a, ast.arg)}
    for x in ast.walk(n.body):
        if isinstance(x, ast.Name) and x.id in own and x.id not in lam_params:
            return False
    return True


def _is_cm(fn):
    for d in fn.decorator_list:
        t = ast.unparse(d)
        if t in ('contextlib.contextmanager', 'contextmanager'):
            return True
    return False


def cm_handlers(fn):
    """Except clauses of a ``try: yield`` context manager, else None."""
    if not _is_cm(fn) or fn.args.vararg or fn.args.kwarg:
        return None
    body = _body_without_doc(fn)
    if len(body) != 1 or not isinstance(body[0], ast.Try):
        return None
    t = body[0]
    if t.orelse or t.finalbody or len(t.body) != 1:
        return None
    y = t.body[0]
    if not (isinstance(y, ast.Expr) and isinstance(y.value, ast.Yield)
            and y.value.value is None):
        return None
    return t.handlers


def single_exit(fn):
    """(statements, result expression or None) when fn can be expanded
    exactly, else None."""
    decs = [ast.unparse(d) for d in fn.decorator_list]
    if any(d not in ('staticmethod', 'classmethod') for d in decs) or \
            fn.args.vararg or fn.args.kwarg or fn.args.posonlyargs:
        return None
    body = _body_without_doc(fn)
    if not body:
        return None
    res = None
    if isinstance(body[-1], ast.Return):
        res = body[-1].value
        body = body[:-1]
    for n in _own_walk(body):
        if isinstance(n, (ast.Return, ast.Yield, ast.YieldFrom, ast.Global,
                          ast.Nonlocal, ast.Await)):
            return None
    for n in ast.walk(fn):
        if isinstance(n, ast.Call) and (isinstance(
                n.func, ast.Name) and n.func.id == fn.name or isinstance(
                    n.func, ast.Attribute) and n.func.attr == fn.name):
            return None        # recursive
        if isinstance(n, (ast.FunctionDef, ast.Lambda)) and n is not fn \
                and not _closed_lambda(n, fn):
            return None        # closures capture locals: keep it simple
    return body, res


def _has_return(stmts):
    return any(isinstance(n, ast.Return) for n in _own_walk(stmts))


def _assign_result(target, val, at):
    """Statements storing a returned value into ``target`` (a name, or a
    list of names for a caller that unpacks a tuple: a tuple display is then
    stored element by element, in evaluation order)."""
    if isinstance(target, list):
        if isinstance(val, ast.Tuple) and len(val.elts) == len(target):
            return [ast.copy_location(ast.Assign(
                targets=[ast.Name(id=t, ctx=ast.Store())],
                value=copy_node(e)), at) for t, e in zip(target, val.elts)]
        return [ast.copy_location(ast.Assign(
            targets=[ast.Tuple(elts=[ast.Name(id=t, ctx=ast.Store())
                                     for t in target], ctx=ast.Store())],
            value=copy_node(val)), at)]
    return [ast.copy_location(ast.Assign(
        targets=[ast.Name(id=target, ctx=ast.Store())],
        value=copy_node(val)), at)]


def _conv_tail(stmts, target, at):
    """Statements with every (tail-position) ``return e`` turned into
    ``target = e``; None when a return is not in tail position (inside a
    loop, try, with, or followed by reachable code that is not the implicit
    else of a guard)."""
    out = []
    for i, st in enumerate(stmts):
        last = i == len(stmts) - 1
        if isinstance(st, ast.Return):
            if not last:
                return None
            val = st.value if st.value is not None else ast.Constant(
                value=None)
            out.extend(_assign_result(target, val, st))
            return out
        if isinstance(st, ast.If) and (_has_return(st.body)
                                       or _has_return(st.orelse)):
            rest = stmts[i + 1:]
            body = _conv_tail(st.body, target, st)
            if body is None:
                return None
            if st.orelse:
                if rest and (_ends_in_return(st.body)
                             and _ends_in_return(st.orelse)):
                    return None
                orelse = _conv_tail(st.orelse + (
                    rest if not _ends_in_return(st.orelse) else []),
                    target, st)
                if not _ends_in_return(st.body) and rest:
                    return None
            else:
                if not _ends_in_return(st.body):
                    return None
                orelse = _conv_tail(rest, target, st) if rest else \
                    _assign_result(target, ast.Constant(value=None), st)
            if orelse is None:
                return None
            new = ast.If(test=copy_node(st.test), body=body, orelse=orelse)
            out.append(ast.copy_location(new, st))
            return out
        if isinstance(st, ast.Try) and _has_return([st]):
            # a try statement whose arms return, as the last statement (or
            # followed by code that is only reached when no arm returned)
            if _has_return(st.finalbody):
                return None
            rest = stmts[i + 1:]
            arms_return = _ends_in_return(st.body + st.orelse) and all(
                _ends_in_return(h.body) or (
                    h.body and isinstance(h.body[-1], ast.Raise))
                for h in st.handlers)
            if rest and arms_return:
                return None
            handlers_leave = all(
                _ends_in_return(h.body) or (
                    h.body and isinstance(h.body[-1], ast.Raise))
                for h in st.handlers)
            if rest and not arms_return and handlers_leave and not \
                    _has_return(st.body) and not st.orelse:
                # the code after the try runs exactly when the body
                # completed: it is the try's else arm
                no = _conv_tail(rest, target, st)
                nh = []
                for h in st.handlers:
                    hb = [copy_node(x) for x in h.body] if isinstance(
                        h.body[-1], ast.Raise) and not _has_return(
                            h.body) else _conv_tail(h.body, target, st)
                    if hb is None:
                        return None
                    h2 = ast.ExceptHandler(type=copy_node(h.type),
                                           name=h.name, body=hb)
                    nh.append(ast.copy_location(h2, h))
                if no is None:
                    return None
                new = ast.Try(body=[copy_node(x) for x in st.body],
                              handlers=nh, orelse=no,
                              finalbody=[copy_node(x)
                                         for x in st.finalbody])
                out.append(ast.copy_location(new, st))
                return out
            if rest and (_has_return(st.body) or _has_return(st.orelse) or any(
                    _has_return(h.body) for h in st.handlers)) and not \
                    arms_return:
                return None

            def arm(blk):
                if not blk:
                    return blk
                if isinstance(blk[-1], ast.Raise) or not _has_return(blk):
                    return [copy_node(x) for x in blk]
                return _conv_tail(blk, target, st)
            nb = arm(st.body) if not st.orelse else [copy_node(x)
                                                     for x in st.body]
            no = arm(st.orelse)
            if st.orelse and _has_return(st.body):
                return None
            nh = []
            for h in st.handlers:
                hb = arm(h.body)
                if hb is None:
                    return None
                h2 = ast.ExceptHandler(type=copy_node(h.type), name=h.name,
                                       body=hb)
                nh.append(ast.copy_location(h2, h))
            if nb is None or no is None:
                return None
            new = ast.Try(body=nb, handlers=nh, orelse=no or [],
                          finalbody=[copy_node(x) for x in st.finalbody])
            out.append(ast.copy_location(new, st))
            if not rest:
                return out
            continue
        if _has_return([st]):
            return None
        out.append(copy_node(st))
    # fell off the end: implicit return None (nothing after a raise)
    if not (stmts and isinstance(stmts[-1], ast.Raise)):
        out.extend(_assign_result(target, ast.Constant(value=None), at))
    return out


def _ends_in_return(stmts):
    if not stmts:
        return False
    last = stmts[-1]
    if isinstance(last, ast.Return):
        return True
    if isinstance(last, ast.If) and last.orelse:
        return _ends_in_return(last.body) and _ends_in_return(last.orelse)
    return False


def tail_exit(fn, target):
    """Body of fn with its tail-position returns assigned to ``target``
    (for helpers with several exits), or None."""
    decs = [ast.unparse(d) for d in fn.decorator_list]
    if any(d not in ('staticmethod', 'classmethod') for d in decs) or \
            fn.args.vararg or fn.args.kwarg or fn.args.posonlyargs:
        return None
    body = _body_without_doc(fn)
    if not body:
        return None
    for n in _own_walk(body):
        if isinstance(n, (ast.Yield, ast.YieldFrom, ast.Global, ast.Nonlocal,
                          ast.Await)):
            return None
    for n in ast.walk(fn):
        if isinstance(n, ast.Call) and (isinstance(
                n.func, ast.Name) and n.func.id == fn.name or isinstance(
                    n.func, ast.Attribute) and n.func.attr == fn.name):
            return None
        if isinstance(n, (ast.FunctionDef, ast.Lambda)) and n is not fn \
                and not _closed_lambda(n, fn):
            return None
    return _conv_tail(body, target, fn)


def _stores(stmts, params):
    out = set()
    for n in _own_walk(stmts):
        if isinstance(n, ast.Name) and isinstance(n.ctx, (ast.Store,
                                                          ast.Del)):
            out.add(n.id)
        if isinstance(n, ast.ExceptHandler) and n.name:
            out.add(n.name)
    return out


def _simple_arg(a):
    if isinstance(a, (ast.Name, ast.Constant)):
        return True
    if isinstance(a, ast.Attribute):
        return _simple_arg(a.value)
    return False


class _Rename(ast.NodeTransformer):
    def __init__(self, names, exprs):
        self.names = names      # old -> new identifier
        self.exprs = exprs      # old -> expression (parameters)

    def visit_Name(self, node):
        if node.id in self.exprs and isinstance(node.ctx, ast.Load):
            return copy_node(self.exprs[node.id])
        if node.id in self.names:
            node.id = self.names[node.id]
        return node

    def visit_ExceptHandler(self, node):
        if node.name in self.names:
            node.name = self.names[node.name]
        self.generic_visit(node)
        return node


def _bind_args(fn, call):
    """param -> argument expression, or None when the call does not fit."""
    a = fn.args
    names = [x.arg for x in a.args]
    recv = None
    if isinstance(call.func, ast.Attribute) and fn.name in _METHODS[0]:
        decs = [ast.unparse(d) for d in fn.decorator_list]
        if 'staticmethod' not in decs:
            if not names:
                return None
            recv = (names[0], call.func.value)
            names = names[1:]
    kwonly = [x.arg for x in a.kwonlyargs]
    if any(isinstance(x, ast.Starred) for x in call.args) or any(
            k.arg is None for k in call.keywords):
        return None
    if len(call.args) > len(names):
        return None
    bound = dict(zip(names, call.args))
    for k in call.keywords:
        if k.arg not in names + kwonly or k.arg in bound:
            return None
        bound[k.arg] = k.value
    defaults = dict(zip(names[len(names) - len(a.defaults):], a.defaults))
    for x, d in zip(a.kwonlyargs, a.kw_defaults):
        if d is not None:
            defaults[x.arg] = d
    for p in names + kwonly:
        if p not in bound:
            if p not in defaults:
                return None
            bound[p] = defaults[p]
    if recv is not None:
        bound[recv[0]] = recv[1]
    return bound


def expand(fn, call, target=None):
    """(prologue+body statements, result expression) of inlining the call,
    or None.  ``target``: the single name the call's value is assigned to;
    when the helper returns one of its locals that local *is* the target
    (no copy is left behind)."""
    se = single_exit(fn)
    _COUNTER[0] += 1
    k = _COUNTER[0]
    if se is None:
        rname = '__ret%d' % k
        if isinstance(target, list):
            # the caller unpacks the result into these names
            tb = tail_exit(fn, list(target))
            if tb is None:
                return None
            body, res = tb, None
        else:
            tb = tail_exit(fn, rname)
            if tb is None:
                return None
            body, res = tb, ast.Name(id=rname, ctx=ast.Load())
    else:
        body, res = se
    bound = _bind_args(fn, call)
    if bound is None:
        return None
    assigned = _stores(body, bound)
    names, exprs, pro = {}, {}, []
    same = None
    if target and not isinstance(target, list) and isinstance(
            res, ast.Name) and res.id in bound and isinstance(
                bound[res.id], ast.Name) and bound[res.id].id == target:
        # x = helper(x, ...): the helper works on, rebinds and returns the
        # caller's own variable
        same = res.id
        names[same] = target
    for p, a in bound.items():
        if p == same:
            continue
        if _simple_arg(a) and p not in assigned:
            exprs[p] = a
        else:
            nm = '%s__i%d' % (p, k)
            names[p] = nm
            asg = ast.Assign(targets=[ast.Name(id=nm, ctx=ast.Store())],
                             value=copy_node(a))
            ast.copy_location(asg, call)
            pro.append(asg)
    if isinstance(target, list):
        # names of the caller: not renamed, not shadowed by helper locals
        for t in target:
            names[t] = t
    if target and not isinstance(target, list) and isinstance(
            res, ast.Name) and res.id in assigned and \
            res.id not in bound and not any(
                isinstance(x, ast.Name) and x.id == target
                for a_ in bound.values() for x in ast.walk(a_)) and (
                    target not in assigned or target == res.id):
        names[res.id] = target
    for nm in assigned:
        if nm not in names:
            names[nm] = '%s__i%d' % (nm, k)
    rn = _Rename(names, exprs)
    new_body = [rn.visit(copy_node(s)) for s in body]
    new_res = rn.visit(copy_node(res)) if res is not None else None
    return pro + new_body, new_res


def generator_body(fn):
    """Statements of a new generator function that only yields values
    (no return value, no send/yield-expression use), else None."""
    if fn.decorator_list or fn.args.vararg or fn.args.kwarg or \
            fn.args.posonlyargs:
        return None
    body = _body_without_doc(fn)
    ys = [n for n in _own_walk(body) if isinstance(n, (ast.Yield,
                                                       ast.YieldFrom))]
    if not ys or any(isinstance(n, ast.YieldFrom) for n in ys):
        return None
    for n in _own_walk(body):
        if isinstance(n, ast.Return) and n.value is not None:
            return None
        if isinstance(n, (ast.Global, ast.Nonlocal, ast.Await)):
            return None
        if isinstance(n, ast.Yield) and not (isinstance(
                getattr(n, '_p', None), ast.Expr)):
            pass
    # every yield is an expression statement of its own
    for st in _own_walk(body):
        for fld, val in ast.iter_fields(st):
            vals = val if isinstance(val, list) else [val]
            for v in vals:
                if isinstance(v, ast.Yield) and not isinstance(st, ast.Expr):
                    return None
    if any(isinstance(n, ast.Return) for n in _own_walk(body)):
        return None
    for n in ast.walk(fn):
        if isinstance(n, (ast.FunctionDef, ast.Lambda)) and n is not fn \
                and not _closed_lambda(n, fn):
            return None
    return body


class _YieldToAdd(ast.NodeTransformer):
    def __init__(self, target, method):
        self.target = target
        self.method = method

    def visit_Expr(self, node):
        if isinstance(node.value, ast.Yield):
            v = node.value.value if node.value.value is not None else \
                ast.Constant(value=None)
            if self.method == 'setitem':
                # dict(gen()): each yielded (key, value) pair is stored
                if not (isinstance(v, ast.Tuple) and len(v.elts) == 2):
                    self.failed = True
                    return node
                asg = ast.Assign(targets=[ast.Subscript(
                    value=ast.Name(id=self.target, ctx=ast.Load()),
                    slice=v.elts[0], ctx=ast.Store())], value=v.elts[1])
                return ast.fix_missing_locations(
                    ast.copy_location(asg, node))
            call = ast.Call(func=ast.Attribute(
                value=ast.Name(id=self.target, ctx=ast.Load()),
                attr=self.method, ctx=ast.Load()), args=[v], keywords=[])
            return ast.copy_location(ast.Expr(value=call), node)
        return node


def expand_collected(fn, call, kind, target):
    """``target = set(gen(...))`` / ``list(gen(...))`` for a new generator
    function: the collection is created empty and the generator's body runs
    in place with each ``yield e`` turned into ``target.add(e)`` /
    ``target.append(e)``."""
    body = generator_body(fn)
    if body is None:
        return None
    bound = _bind_args(fn, call)
    if bound is None:
        return None
    _COUNTER[0] += 1
    k = _COUNTER[0]
    assigned = _stores(body, bound)
    names, exprs, pro = {}, {}, []
    for p, a in bound.items():
        if _simple_arg(a) and p not in assigned:
            exprs[p] = a
        else:
            nm = '%s__i%d' % (p, k)
            names[p] = nm
            asg = ast.Assign(targets=[ast.Name(id=nm, ctx=ast.Store())],
                             value=copy_node(a))
            pro.append(ast.copy_location(asg, call))
    # every local of the generator is renamed - also one that happens to
    # be called like the caller's target
    for nm in assigned:
        if nm not in names:
            names[nm] = '%s__i%d' % (nm, k)
    rn = _Rename(names, exprs)
    ya = _YieldToAdd(target, {'set': 'add', 'dict': 'setitem'}.get(
        kind, 'append'))
    ya.failed = False
    new_body = [ya.visit(rn.visit(copy_node(s))) for s in body]
    if ya.failed:
        return None
    init = ast.Assign(
        targets=[ast.Name(id=target, ctx=ast.Store())],
        value=ast.Call(func=ast.Name(id=kind, ctx=ast.Load()), args=[],
                       keywords=[]))
    ast.copy_location(init, call)
    return pro + [init] + new_body


def _expr_bodied(fn):
    se = single_exit(fn)
    return se is not None and not se[0] and se[1] is not None


def module_cms(tree, new_names):
    """name -> (FunctionDef, handlers) for the new try/yield context
    managers of a module."""
    out = {}
    for st in tree.body:
        if isinstance(st, ast.FunctionDef) and st.name in new_names:
            h = cm_handlers(st)
            if h is not None:
                out[st.name] = (st, h)
    return out


def _module_bindings(tree):
    """name -> ('import', stmt) | ('def', None) for module-level names."""
    out = {}
    for st in tree.body:
        if isinstance(st, (ast.Import, ast.ImportFrom)):
            for al in st.names:
                nm = (al.asname or al.name).split('.')[0]
                one = copy_node(st)
                one.names = [copy_node(al)]
                out[nm] = ('import', one)
        elif isinstance(st, (ast.FunctionDef, ast.ClassDef)):
            out[st.name] = ('def', None)
        elif isinstance(st, ast.Assign):
            for t in st.targets:
                if isinstance(t, ast.Name):
                    out[t.id] = ('def', None)
    return out


class _Qualify(ast.NodeTransformer):
    """Names of the context manager's own module, as seen from the module
    that uses it through ``alias``."""

    def __init__(self, bindings, alias, need_imports, local_names):
        self.b = bindings
        self.alias = alias
        self.need = need_imports
        self.local = local_names

    def visit_Name(self, node):
        if isinstance(node.ctx, ast.Load) and node.id in self.b and \
                node.id not in self.local:
            kind, stmt = self.b[node.id]
            if kind == 'import':
                self.need[node.id] = stmt
                return node
            return ast.copy_location(ast.Attribute(
                value=ast.Name(id=self.alias, ctx=ast.Load()),
                attr=node.id, ctx=ast.Load()), node)
        return node


def inline_module(tree, new_names, foreign=None):
    """Expand calls of the module-level functions named in new_names (and
    their context-manager uses) everywhere in the module.  ``foreign`` maps
    a local alias of another module to (that module's tree, its new
    context managers).  Returns the number of expansions."""
    defs = {st.name: st for st in tree.body
            if isinstance(st, ast.FunctionDef) and st.name in new_names}
    # new methods (recorded as 'Class.method'), called as self.m(...),
    # cls.m(...) or Class.m(...); only names unique in the module
    meths = {}
    classes = set()
    for st in tree.body:
        if isinstance(st, ast.ClassDef):
            classes.add(st.name)
            for x in st.body:
                if isinstance(x, ast.FunctionDef) and '%s.%s' % (
                        st.name, x.name) in new_names:
                    meths.setdefault(x.name, []).append(x)
    meths = {k: v[0] for k, v in meths.items() if len(v) == 1
             and k not in defs}
    _METHODS[0] = meths
    _CLASSES[0] = classes
    defs.update(meths)
    if not defs and not foreign:
        return 0
    cms = {n: (f, h) for n, (f, h) in module_cms(tree, new_names).items()}
    _FOREIGN[0] = foreign or {}
    _NEED[0] = {}
    count = 0
    for _round in range(4):
        changed = 0
        for node in list(ast.walk(tree)):
            for fld in ('body', 'orelse', 'finalbody'):
                blk = getattr(node, fld, None)
                if not (isinstance(blk, list) and blk and isinstance(
                        blk[0], ast.stmt)):
                    continue
                i = 0
                while i < len(blk):
                    st = blk[i]
                    owner = _enclosing_def_name(st, tree)
                    new = _expand_stmt(st, defs, cms, owner)
                    if new is not None:
                        blk[i:i + 1] = new
                        changed += 1
                        # re-visit the expansion
                        continue
                    i += 1
        for node in list(ast.walk(tree)):
            if isinstance(node, ast.Try):
                for h in node.handlers:
                    i = 0
                    while i < len(h.body):
                        new = _expand_stmt(h.body[i], defs, cms, None)
                        if new is not None:
                            h.body[i:i + 1] = new
                            changed += 1
                            continue
                        i += 1
        count += changed
        if not changed:
            break
    # a helper every use of which was expanded is dead code: drop it, so
    # that nothing is analysed twice (kept when it is still referenced,
    # here or - by attribute or import - from another module)
    if count:
        for nm, fn in list(defs.items()):
            if nm in _EXTERNAL[0] or nm in _METHODS[0]:
                continue
            used = False
            for n in ast.walk(tree):
                if n is fn:
                    continue
                if isinstance(n, ast.Name) and n.id == nm and not any(
                        n is x for x in ast.walk(fn)):
                    used = True
                    break
            if not used:
                tree.body = [st for st in tree.body if st is not fn]
    # imports the expanded handlers rely on
    have = _module_bindings(tree)
    for nm, stmt in _NEED[0].items():
        if nm not in have:
            tree.body.insert(0, stmt)
    ast.fix_missing_locations(tree)
    return count


_FOREIGN = [{}]
_NEED = [{}]
_EXTERNAL = [set()]
_METHODS = [{}]
_CLASSES = [set()]


def _enclosing_def_name(st, tree):
    return None


def _calls_in_stmt(st, defs):
    """Call nodes of new helpers in the header expressions of a simple
    statement (not inside nested blocks)."""
    if isinstance(st, (ast.Expr, ast.Assign, ast.AugAssign, ast.AnnAssign,
                       ast.Return)):
        roots = [st]
    elif isinstance(st, (ast.If, ast.While)):
        roots = [st.test]
    elif isinstance(st, ast.For):
        roots = [st.iter]
    elif isinstance(st, ast.Raise):
        roots = [x for x in (st.exc, st.cause) if x is not None]
    else:
        return []
    out = []
    for r in roots:
        for n in _own_walk([r]):
            if isinstance(n, ast.Call) and isinstance(
                    n.func, ast.Name) and n.func.id in defs and \
                    n.func.id not in _METHODS[0]:
                out.append(n)
            elif isinstance(n, ast.Call) and isinstance(
                    n.func, ast.Attribute) and n.func.attr in _METHODS[0] \
                    and isinstance(n.func.value, ast.Name) and (
                        n.func.value.id in ('self', 'cls')
                        or n.func.value.id in _CLASSES[0]):
                out.append(n)
    return out


def _replace_child(root, old, new):
    for n in ast.walk(root):
        for fld, val in ast.iter_fields(n):
            if val is old:
                setattr(n, fld, new)
                return True
            if isinstance(val, list):
                for j, x in enumerate(val):
                    if x is old:
                        val[j] = new
                        return True
    return False


def _dict_of_pairs(st, defs):
    """``x = dict(h(a) for a in xs if c)`` with h a new statement-bodied
    helper returning the (key, value) pair: the loop
    ``x = {}; for a in xs: if c: k, v = h(a); x[k] = v``."""
    if not (isinstance(st, (ast.Return, ast.Assign)) and isinstance(
            st.value, ast.Call) and isinstance(st.value.func, ast.Name)
            and st.value.func.id == 'dict' and len(st.value.args) == 1
            and not st.value.keywords and isinstance(
                st.value.args[0], (ast.GeneratorExp, ast.ListComp))):
        return None
    if isinstance(st, ast.Assign) and not (len(st.targets) == 1 and isinstance(
            st.targets[0], (ast.Name, ast.Subscript, ast.Attribute))):
        return None
    comp = st.value.args[0]
    if len(comp.generators) != 1 or comp.generators[0].is_async:
        return None
    e = comp.elt
    if not (isinstance(e, ast.Call) and isinstance(e.func, ast.Name)
            and e.func.id in defs and not _expr_bodied(defs[e.func.id])
            and not _is_cm(defs[e.func.id])):
        return None
    gen = comp.generators[0]
    _COUNTER[0] += 1
    acc = '__lc%d' % _COUNTER[0]
    k, v = '__k%d' % _COUNTER[0], '__v%d' % _COUNTER[0]
    body = [
        ast.Assign(targets=[ast.Tuple(elts=[
            ast.Name(id=k, ctx=ast.Store()), ast.Name(id=v, ctx=ast.Store())],
            ctx=ast.Store())], value=e),
        ast.Assign(targets=[ast.Subscript(
            value=ast.Name(id=acc, ctx=ast.Load()),
            slice=ast.Name(id=k, ctx=ast.Load()), ctx=ast.Store())],
            value=ast.Name(id=v, ctx=ast.Load()))]
    body = [ast.copy_location(b, st) for b in body]
    for c in reversed(gen.ifs):
        body = [ast.copy_location(ast.If(test=c, body=body, orelse=[]), st)]
    loop = ast.For(target=gen.target, iter=gen.iter, body=body, orelse=[])
    for x in ast.walk(loop.target):
        if isinstance(x, ast.Name):
            x.ctx = ast.Store()
    first = ast.copy_location(ast.Assign(
        targets=[ast.Name(id=acc, ctx=ast.Store())],
        value=ast.Dict(keys=[], values=[])), st)
    st.value = ast.Name(id=acc, ctx=ast.Load())
    out = [first, ast.copy_location(loop, st), st]
    for x in out:
        ast.fix_missing_locations(x)
    return out


def _decomprehend(st, defs):
    """``x = [h(a) for a in xs if c]`` (also ``return [...]``, set and dict
    comprehensions) whose element calls a new statement-bodied helper, as
    the loop it abbreviates - so that the helper can be expanded in the
    loop body."""
    pairs = _dict_of_pairs(st, defs)
    if pairs is not None:
        return pairs
    if not (isinstance(st, (ast.Return, ast.Assign)) and isinstance(
            st.value, (ast.ListComp, ast.SetComp, ast.DictComp))):
        return None
    if isinstance(st, ast.Assign) and not (len(st.targets) == 1 and isinstance(
            st.targets[0], (ast.Name, ast.Subscript, ast.Attribute))):
        return None
    comp = st.value
    if len(comp.generators) != 1 or comp.generators[0].is_async:
        return None
    parts = [comp.key, comp.value] if isinstance(comp, ast.DictComp) \
        else [comp.elt]
    hit = False
    for part in parts:
        for n in _own_walk([part]):
            if isinstance(n, ast.Call) and isinstance(n.func, ast.Name) \
                    and n.func.id in defs and not _expr_bodied(
                        defs[n.func.id]) and not _is_cm(defs[n.func.id]):
                hit = True
    if not hit:
        return None
    gen = comp.generators[0]
    _COUNTER[0] += 1
    acc = '__lc%d' % _COUNTER[0]
    if isinstance(comp, ast.ListComp):
        init = ast.List(elts=[], ctx=ast.Load())
        add = ast.Expr(value=ast.Call(func=ast.Attribute(
            value=ast.Name(id=acc, ctx=ast.Load()), attr='append',
            ctx=ast.Load()), args=[comp.elt], keywords=[]))
    elif isinstance(comp, ast.SetComp):
        init = ast.Call(func=ast.Name(id='set', ctx=ast.Load()), args=[],
                        keywords=[])
        add = ast.Expr(value=ast.Call(func=ast.Attribute(
            value=ast.Name(id=acc, ctx=ast.Load()), attr='add',
            ctx=ast.Load()), args=[comp.elt], keywords=[]))
    else:
        init = ast.Dict(keys=[], values=[])
        add = ast.Assign(targets=[ast.Subscript(
            value=ast.Name(id=acc, ctx=ast.Load()), slice=comp.key,
            ctx=ast.Store())], value=comp.value)
    body = [ast.copy_location(add, st)]
    for c in reversed(gen.ifs):
        body = [ast.copy_location(ast.If(test=c, body=body, orelse=[]), st)]
    loop = ast.For(target=gen.target, iter=gen.iter, body=body, orelse=[])
    for x in ast.walk(loop.target):
        if isinstance(x, ast.Name):
            x.ctx = ast.Store()
    first = ast.copy_location(ast.Assign(
        targets=[ast.Name(id=acc, ctx=ast.Store())], value=init), st)
    st.value = ast.Name(id=acc, ctx=ast.Load())
    out = [first, ast.copy_location(loop, st), st]
    for x in out:
        ast.fix_missing_locations(x)
    return out


def _evaluated_first(test, call):
    """The call is the first thing the test evaluates, unconditionally."""
    while True:
        if test is call:
            return True
        if isinstance(test, ast.UnaryOp) and isinstance(test.op, ast.Not):
            test = test.operand
        elif isinstance(test, ast.BoolOp):
            test = test.values[0]
        elif isinstance(test, ast.Compare):
            test = test.left
        else:
            return False


def _expand_stmt(st, defs, cms, owner):
    dc = _decomprehend(st, defs)
    if dc is not None:
        return dc
    # context managers
    if isinstance(st, ast.With) and len(st.items) == 1 and \
            st.items[0].optional_vars is None:
        e = st.items[0].context_expr
        hit = None
        if isinstance(e, ast.Call) and isinstance(
                e.func, ast.Name) and e.func.id in cms:
            fn, hs = cms[e.func.id]
            hit = (fn, hs, None)
        elif isinstance(e, ast.Call) and isinstance(
                e.func, ast.Attribute) and isinstance(
                    e.func.value, ast.Name) and e.func.value.id in \
                _FOREIGN[0]:
            ftree, fcms = _FOREIGN[0][e.func.value.id]
            if e.func.attr in fcms:
                fn, hs = fcms[e.func.attr]
                hit = (fn, hs, (e.func.value.id, ftree))
        if hit is not None:
            fn, hs, cross = hit
            bound = _bind_args(fn, e)
            if bound is not None and all(_simple_arg(a)
                                         for a in bound.values()):
                rn = _Rename({}, bound)
                handlers = [rn.visit(copy_node(h)) for h in hs]
                if cross is not None:
                    alias, ftree = cross
                    q = _Qualify(_module_bindings(ftree), alias, _NEED[0],
                                 set(bound))
                    handlers = [q.visit(h) for h in handlers]
                t = ast.Try(body=st.body, handlers=handlers, orelse=[],
                            finalbody=[])
                ast.copy_location(t, st)
                return [t]
    # target = set(gen(...)) / list(gen(...)) for a new generator function
    if isinstance(st, ast.Assign) and len(st.targets) == 1 and isinstance(
            st.targets[0], ast.Name) and isinstance(
                st.value, ast.Call) and isinstance(
                    st.value.func, ast.Name) and st.value.func.id in (
                        'set', 'list', 'dict') and len(st.value.args) == 1 and \
            not st.value.keywords and isinstance(
                st.value.args[0], ast.Call) and isinstance(
                    st.value.args[0].func, ast.Name) and \
            st.value.args[0].func.id in defs:
        gfn = defs[st.value.args[0].func.id]
        ex = expand_collected(gfn, st.value.args[0], st.value.func.id,
                              st.targets[0].id)
        if ex is not None:
            return ex
    calls = _calls_in_stmt(st, defs)
    for call in calls:
        fn = defs[call.func.id if isinstance(call.func, ast.Name)
                  else call.func.attr]
        if fn.name in cms or _is_cm(fn):
            continue
        if any(isinstance(n, (ast.Yield, ast.YieldFrom))
               for n in _own_walk(fn.body)):
            continue
        # do not expand a helper inside itself
        whole = isinstance(st, (ast.Expr, ast.Assign, ast.AnnAssign,
                                ast.Return)) and getattr(
                                    st, 'value', None) is call
        if _expr_bodied(fn):
            ex = expand(fn, call)
            if ex is None:
                continue
            pro, res = ex
            if pro:
                if not whole and not isinstance(
                        st, (ast.Expr, ast.Assign, ast.AnnAssign,
                             ast.Return, ast.AugAssign)):
                    continue
            _replace_child(st, call, res)
            return pro + [st]
        tgt = None
        if whole and isinstance(st, ast.Assign) and len(
                st.targets) == 1 and isinstance(st.targets[0], ast.Name):
            tgt = st.targets[0].id
        elif whole and isinstance(st, ast.Assign) and len(
                st.targets) == 1 and isinstance(
                    st.targets[0], ast.Tuple) and all(
                        isinstance(x, ast.Name)
                        for x in st.targets[0].elts) and single_exit(
                            fn) is None:
            names_ = [x.id for x in st.targets[0].elts]
            used = {x.id for a_ in list(call.args) + [
                k_.value for k_ in call.keywords] for x in ast.walk(a_)
                if isinstance(x, ast.Name)}
            if not (set(names_) & used):
                ex = expand(fn, call, names_)
                if ex is not None and ex[1] is None:
                    return ex[0]
        ex = expand(fn, call, tgt)
        if ex is None:
            continue
        stmts, res = ex
        if whole and tgt and isinstance(res, ast.Name) and res.id == tgt:
            return stmts or [ast.copy_location(ast.Pass(), st)]
        if whole and tgt and isinstance(res, ast.Name) and isinstance(
                st, ast.Assign) and res.id == tgt:
            return stmts
        if whole:
            if isinstance(st, ast.Expr):
                tail = []
                if res is not None and not isinstance(
                        res, (ast.Name, ast.Constant)):
                    tail = [ast.copy_location(ast.Expr(value=res), st)]
                return stmts + tail or [ast.copy_location(ast.Pass(), st)]
            if res is None:
                res = ast.Constant(value=None)
            st.value = res
            return stmts + [st]
        if isinstance(st, ast.If) and _evaluated_first(st.test, call):
            # ``if h(...):`` - the call is what the test evaluates first:
            # flag = <expansion>; if flag:
            _COUNTER[0] += 1
            tmp = '__inl%d' % _COUNTER[0]
            ex2 = expand(fn, call, tmp)
            if ex2 is not None and isinstance(
                    ex2[1], ast.Name) and ex2[1].id == tmp:
                _replace_child(st, call, ast.Name(id=tmp, ctx=ast.Load()))
                return ex2[0] + [st]
            if ex2 is not None and ex2[1] is not None:
                # the helper ends in ``return <expression>``
                _replace_child(st, call, ex2[1])
                return ex2[0] + [st]
            continue
        if not isinstance(st, (ast.Expr, ast.Assign, ast.AnnAssign,
                               ast.Return, ast.AugAssign)):
            continue
        # hoist: tmp = <expansion>; statement uses tmp
        _COUNTER[0] += 1
        tmp = '__inl%d' % _COUNTER[0]
        if res is None:
            res = ast.Constant(value=None)
        asg = ast.copy_location(ast.Assign(
            targets=[ast.Name(id=tmp, ctx=ast.Store())], value=res), st)
        _replace_child(st, call, ast.Name(id=tmp, ctx=ast.Load()))
        return stmts + [asg, st]
    return None


# -- namedtuple results read as plain tuples ---------------------------------

def _nt_fields(value):
    """Field names of ``collections.namedtuple('N', <fields>)``, else None."""
    if not (isinstance(value, ast.Call) and ast.unparse(value.func) in (
            'collections.namedtuple', 'namedtuple') and len(value.args) == 2):
        return None
    f = value.args[1]
    if isinstance(f, ast.Constant) and isinstance(f.value, str):
        return f.value.replace(',', ' ').split()
    if isinstance(f, (ast.List, ast.Tuple)) and all(
            isinstance(x, ast.Constant) and isinstance(x.value, str)
            for x in f.elts):
        return [x.value for x in f.elts]
    return None


def _func_defs(tree):
    out = {}
    for st in tree.body:
        if isinstance(st, ast.FunctionDef):
            out.setdefault(st.name, []).append(st)
    return out


def untuple_results(trees, imports):
    """trees: module name -> tree; imports: module name -> {alias: dotted}.

    A function all of whose returns build the same module-level namedtuple,
    and all of whose call sites bind the result to a local that is only ever
    read through its fields, is equivalent to the function returning a plain
    tuple that the callers unpack.  Both sides are rewritten to that form
    (``v = f()`` / ``v.a`` becomes ``v__a, v__b = f()`` / ``v__a``), which
    is the form the reference tree uses.  Returns the number of functions
    rewritten."""
    done = 0
    for mn, tree in trees.items():
        nts = {}
        for st in tree.body:
            if isinstance(st, ast.Assign) and len(st.targets) == 1 and \
                    isinstance(st.targets[0], ast.Name):
                fl = _nt_fields(st.value)
                if fl:
                    nts[st.targets[0].id] = fl
        if not nts:
            continue
        for fname, defs in _func_defs(tree).items():
            if len(defs) != 1:
                continue
            fn = defs[0]
            rets = [n for n in _own_walk(fn.body)
                    if isinstance(n, ast.Return)]
            if not rets:
                continue
            ok = True
            nt = None
            for r in rets:
                v = r.value
                if not (isinstance(v, ast.Call) and isinstance(
                        v.func, ast.Name) and v.func.id in nts):
                    ok = False
                    break
                nt = nt or v.func.id
                fl = nts[v.func.id]
                if v.func.id != nt or any(
                        isinstance(a, ast.Starred) for a in v.args) or len(
                        v.args) + len(v.keywords) != len(fl) or any(
                        k.arg not in fl[len(v.args):] for k in v.keywords):
                    ok = False
                    break
            if not ok:
                continue
            fields = nts[nt]
            # every call site, in every module
            sites = []
            conform = True
            for mn2, t2 in trees.items():
                aliases = [a for a, d in imports.get(mn2, {}).items()
                           if d == mn]
                direct = [a for a, d in imports.get(mn2, {}).items()
                          if d == '%s.%s' % (mn, fname)]
                for holder in ast.walk(t2):
                    if not isinstance(holder, ast.FunctionDef):
                        continue
                    for n in _own_walk(holder.body):
                        if not isinstance(n, ast.Call):
                            continue
                        f_ = n.func
                        hit = (mn2 == mn and isinstance(f_, ast.Name)
                               and f_.id == fname) or (
                            isinstance(f_, ast.Name) and f_.id in direct
                        ) or (isinstance(f_, ast.Attribute) and isinstance(
                            f_.value, ast.Name) and f_.value.id in aliases
                            and f_.attr == fname)
                        if hit:
                            sites.append((holder, n))
            for holder, call in sites:
                asg = [s for s in _own_walk(holder.body)
                       if isinstance(s, ast.Assign) and s.value is call]
                if len(asg) == 1 and len(asg[0].targets) == 1 and \
                        isinstance(asg[0].targets[0], ast.Tuple) and len(
                            asg[0].targets[0].elts) == len(fields) and \
                        not any(isinstance(e, ast.Starred)
                                for e in asg[0].targets[0].elts):
                    continue        # unpacked on the spot: a tuple already
                if len(asg) != 1 or len(asg[0].targets) != 1 or not \
                        isinstance(asg[0].targets[0], ast.Name):
                    conform = False
                    break
                v = asg[0].targets[0].id
                stores = [x for x in ast.walk(holder) if isinstance(
                    x, ast.Name) and x.id == v and isinstance(
                        x.ctx, (ast.Store, ast.Del))]
                if len(stores) != 1:
                    conform = False
                    break
                for x in ast.walk(holder):
                    for c in ast.iter_child_nodes(x):
                        if isinstance(c, ast.Name) and c.id == v and \
                                isinstance(c.ctx, ast.Load):
                            if not (isinstance(x, ast.Attribute)
                                    and x.value is c and x.attr in fields):
                                conform = False
                if not conform:
                    break
            if not conform or not sites:
                continue
            # rewrite the returns ...
            for r in rets:
                v = r.value
                vals = list(v.args)
                kw = {k.arg: k.value for k in v.keywords}
                for fld in fields[len(vals):]:
                    vals.append(kw[fld])
                r.value = ast.copy_location(
                    ast.Tuple(elts=vals, ctx=ast.Load()), v)
            # ... and the callers
            for holder, call in sites:
                asg = [s for s in _own_walk(holder.body)
                       if isinstance(s, ast.Assign) and s.value is call][0]
                if isinstance(asg.targets[0], ast.Tuple):
                    continue
                v = asg.targets[0].id
                asg.targets = [ast.copy_location(ast.Tuple(
                    elts=[ast.Name(id='%s__%s' % (v, fld), ctx=ast.Store())
                          for fld in fields], ctx=ast.Store()), asg)]

                class _Proj(ast.NodeTransformer):
                    def visit_Attribute(self, node):
                        self.generic_visit(node)
                        if isinstance(node.value, ast.Name) and \
                                node.value.id == v and node.attr in fields:
                            return ast.copy_location(ast.Name(
                                id='%s__%s' % (v, node.attr),
                                ctx=node.ctx), node)
                        return node
                _Proj().visit(holder)
                ast.fix_missing_locations(holder)
            done += 1
    return done
