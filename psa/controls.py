"""In-memory mutants ("controls") every thorough run must catch, and benign
twins that must stay silent.  Each edit replaces one anchor string that must
occur exactly once in the file; a lost anchor is an analysis error."""


def M(id, file, old, new, expect, **kw):
    d = {'id': id, 'edits': [{'file': file, 'old': old, 'new': new}],
         'expect': expect}
    d.update(kw)
    return d


def M2(id, edits, expect, **kw):
    d = {'id': id, 'edits': [{'file': f, 'old': o, 'new': n}
                             for f, o, n in edits], 'expect': expect}
    d.update(kw)
    return d


def B(id, file, old, new):
    return {'id': id, 'edits': [{'file': file, 'old': old, 'new': new}],
            'benign': True}


H = 'placement/handlers/'
O = 'placement/objects/'

CONTROLS = {}

CONTROLS['C16'] = [
    M('c16-drop-can', H + 'aggregate.py',
      "    context.can(policies.UPDATE)\n", "", 'R16.1'),
    M('c16-can-after-body', H + 'trait.py',
      "    context.can(policies.RP_TRAIT_UPDATE)\n"
      "    want_version = req.environ[microversion.MICROVERSION_ENVIRON]\n"
      "    uuid = util.wsgi_path_item(req.environ, 'uuid')\n"
      "    data = util.extract_json(req.body, schema.SET_TRAITS_FOR_RP_SCHEMA)\n",
      "    want_version = req.environ[microversion.MICROVERSION_ENVIRON]\n"
      "    uuid = util.wsgi_path_item(req.environ, 'uuid')\n"
      "    data = util.extract_json(req.body, schema.SET_TRAITS_FOR_RP_SCHEMA)\n"
      "    context.can(policies.RP_TRAIT_UPDATE)\n", 'R16.2'),
    M('c16-wrong-rule', H + 'inventory.py',
      "    context.can(policies.UPDATE)\n    uuid = util.wsgi_path_item("
      "req.environ, 'uuid')\n    resource_class = util.wsgi_path_item(",
      "    context.can(policies.LIST)\n    uuid = util.wsgi_path_item("
      "req.environ, 'uuid')\n    resource_class = util.wsgi_path_item(",
      'R16.1'),
    M('c16-open-check-str', 'placement/policies/reshaper.py',
      "base.SERVICE", "'@'", 'R16.3'),
    M('c16-reshaper-admin', 'placement/policies/reshaper.py',
      "base.SERVICE", "base.ADMIN_OR_SERVICE", 'R16.3'),
    M('c16-exempt-usages', 'placement/auth.py',
      "not in ['/', '']:\n            LOG.debug",
      "not in ['/', '', '/usages']:\n            LOG.debug", 'R16.4'),
    M('c16-fatal-false', H + 'usage.py',
      "    context.can(policies.PROVIDER_USAGES)",
      "    context.can(policies.PROVIDER_USAGES, fatal=False)", 'R16.1'),
    M('c16-403-to-404', 'placement/handler.py',
      "raise webob.exc.HTTPForbidden(", "raise webob.exc.HTTPNotFound(",
      'R16.4'),
    M('c16-can-under-if', H + 'resource_class.py',
      "    context.can(policies.DELETE)\n",
      "    if name.startswith('CUSTOM_'):\n"
      "        context.can(policies.DELETE)\n", 'R16.2'),
    M('c16-db-before-can', H + 'resource_provider.py',
      "    context.can(policies.SHOW)\n\n    # The containing application "
      "will catch a not found here.\n    resource_provider = "
      "rp_obj.ResourceProvider.get_by_uuid(\n        context, uuid)\n",
      "    resource_provider = rp_obj.ResourceProvider.get_by_uuid(\n"
      "        context, uuid)\n    context.can(policies.SHOW)\n", 'R16.2'),
    M('c16-skip-auth-mw', 'placement/deploy.py',
      "                       auth_middleware,\n", "", 'R16.4'),
    M('c16-base-rule-weak', 'placement/policies/base.py',
      '"role:admin or role:service",', '"role:admin or role:member",',
      'R16.3'),
    M('c16-usages-target', H + 'usage.py',
      "target={'project_id': project_id})",
      "target={'project_id': context.project_id})", 'R16.3'),
    M('c16-unregistered-module', 'placement/policies/__init__.py',
      "        reshaper.list_rules(),\n", "", 'R16.1'),
    B('c16-benign-reorder', H + 'inventory.py',
      "    context = req.environ['placement.context']\n"
      "    context.can(policies.SHOW)\n"
      "    uuid = util.wsgi_path_item(req.environ, 'uuid')\n",
      "    uuid = util.wsgi_path_item(req.environ, 'uuid')\n"
      "    context = req.environ['placement.context']\n"
      "    context.can(policies.SHOW)\n"),
    B('c16-benign-rename', H + 'usage.py',
      "    context = req.environ['placement.context']\n"
      "    context.can(policies.PROVIDER_USAGES)\n"
      "    uuid = util.wsgi_path_item(req.environ, 'uuid')\n",
      "    ctxt = req.environ['placement.context']\n"
      "    ctxt.can(policies.PROVIDER_USAGES)\n"
      "    context = ctxt\n"
      "    uuid = util.wsgi_path_item(req.environ, 'uuid')\n"),
]
