"""In-memory mutants ("controls") every thorough run must catch, and benign
twins that must stay silent.  Each edit replaces one anchor string that must
occur exactly once in the file; a lost anchor is an analysis error."""


def M(id, file, old, new, expect, **kw):
    d = {'id': id, 'edits': [{'file': file, 'old': old, 'new': new}],
         'expect': expect}
    d.update(kw)
    return d


def M2(id, edits, expect, **kw):
    d = {'id': id, 'edits': [{'file': f, 'old': o, 'new': n}
                             for f, o, n in edits], 'expect': expect}
    d.update(kw)
    return d


def B(id, file, old, new):
    return {'id': id, 'edits': [{'file': file, 'old': old, 'new': new}],
            'benign': True}


H = 'placement/handlers/'
O = 'placement/objects/'

CONTROLS = {}

CONTROLS['C16'] = [
    M('c16-drop-can', H + 'aggregate.py',
      "    context.can(policies.UPDATE)\n", "", 'R16.1'),
    M('c16-can-after-body', H + 'trait.py',
      "    context.can(policies.RP_TRAIT_UPDATE)\n"
      "    want_version = req.environ[microversion.MICROVERSION_ENVIRON]\n"
      "    uuid = util.wsgi_path_item(req.environ, 'uuid')\n"
      "    data = util.extract_json(req.body, schema.SET_TRAITS_FOR_RP_SCHEMA)\n",
      "    want_version = req.environ[microversion.MICROVERSION_ENVIRON]\n"
      "    uuid = util.wsgi_path_item(req.environ, 'uuid')\n"
      "    data = util.extract_json(req.body, schema.SET_TRAITS_FOR_RP_SCHEMA)\n"
      "    context.can(policies.RP_TRAIT_UPDATE)\n", 'R16.2'),
    M('c16-wrong-rule', H + 'inventory.py',
      "    context.can(policies.UPDATE)\n    uuid = util.wsgi_path_item("
      "req.environ, 'uuid')\n    resource_class = util.wsgi_path_item(",
      "    context.can(policies.LIST)\n    uuid = util.wsgi_path_item("
      "req.environ, 'uuid')\n    resource_class = util.wsgi_path_item(",
      'R16.1'),
    M('c16-open-check-str', 'placement/policies/reshaper.py',
      "base.SERVICE", "'@'", 'R16.3'),
    M('c16-reshaper-admin', 'placement/policies/reshaper.py',
      "base.SERVICE", "base.ADMIN_OR_SERVICE", 'R16.3'),
    M('c16-exempt-usages', 'placement/auth.py',
      "not in ['/', '']:\n            LOG.debug",
      "not in ['/', '', '/usages']:\n            LOG.debug", 'R16.4'),
    M('c16-fatal-false', H + 'usage.py',
      "    context.can(policies.PROVIDER_USAGES)",
      "    context.can(policies.PROVIDER_USAGES, fatal=False)", 'R16.1'),
    M('c16-403-to-404', 'placement/handler.py',
      "raise webob.exc.HTTPForbidden(", "raise webob.exc.HTTPNotFound(",
      'R16.4'),
    M('c16-can-under-if', H + 'resource_class.py',
      "    context.can(policies.DELETE)\n",
      "    if name.startswith('CUSTOM_'):\n"
      "        context.can(policies.DELETE)\n", 'R16.2'),
    M('c16-db-before-can', H + 'resource_provider.py',
      "    context.can(policies.SHOW)\n\n    # The containing application "
      "will catch a not found here.\n    resource_provider = "
      "rp_obj.ResourceProvider.get_by_uuid(\n        context, uuid)\n",
      "    resource_provider = rp_obj.ResourceProvider.get_by_uuid(\n"
      "        context, uuid)\n    context.can(policies.SHOW)\n", 'R16.2'),
    M('c16-skip-auth-mw', 'placement/deploy.py',
      "                       auth_middleware,\n", "", 'R16.4'),
    M('c16-base-rule-weak', 'placement/policies/base.py',
      '"role:admin or role:service",', '"role:admin or role:member",',
      'R16.3'),
    M('c16-usages-target', H + 'usage.py',
      "target={'project_id': project_id})",
      "target={'project_id': context.project_id})", 'R16.3'),
    M('c16-unregistered-module', 'placement/policies/__init__.py',
      "        reshaper.list_rules(),\n", "", 'R16.1'),
    B('c16-benign-reorder', H + 'inventory.py',
      "    context = req.environ['placement.context']\n"
      "    context.can(policies.SHOW)\n"
      "    uuid = util.wsgi_path_item(req.environ, 'uuid')\n",
      "    uuid = util.wsgi_path_item(req.environ, 'uuid')\n"
      "    context = req.environ['placement.context']\n"
      "    context.can(policies.SHOW)\n"),
    B('c16-benign-rename', H + 'usage.py',
      "    context = req.environ['placement.context']\n"
      "    context.can(policies.PROVIDER_USAGES)\n"
      "    uuid = util.wsgi_path_item(req.environ, 'uuid')\n",
      "    ctxt = req.environ['placement.context']\n"
      "    ctxt.can(policies.PROVIDER_USAGES)\n"
      "    context = ctxt\n"
      "    uuid = util.wsgi_path_item(req.environ, 'uuid')\n"),
]

RP = O + 'resource_provider.py'
CONTROLS['C10'] = [
    M('c10-drop-incr-delete-inventory', RP,
      "            % resource_class)\n    rp.increment_generation()\n",
      "            % resource_class)\n", 'R10.1'),
    M('c10-early-return-set-inventory', RP,
      "    if to_delete:\n        _delete_inventory_from_provider(context, rp, to_delete)\n",
      "    if to_delete:\n        _delete_inventory_from_provider(context, rp, to_delete)\n"
      "        if not to_add and not to_update:\n            return exceeded\n",
      'R10.1'),
    M('c10-incr-other-object', RP,
      "        _add_traits_to_provider(context, rp.id, to_add)\n    rp.increment_generation()\n",
      "        _add_traits_to_provider(context, rp.id, to_add)\n"
      "    ResourceProvider.get_by_uuid(context, rp.uuid).increment_generation()\n",
      'R10.1'),
    M('c10-agg-flag-false', H + 'aggregate.py',
      "                    increment_generation=consider_generation)",
      "                    increment_generation=False)", 'R10.3'),
    M('c10-agg-flag-other-gate', H + 'aggregate.py',
      "    consider_generation = want_version.matches(\n        min_version=_INCLUDE_GENERATION_VERSION)",
      "    consider_generation = want_version.matches(\n        min_version=(1, 20))",
      'R10.3'),
    M('c10-write-in-get', H + 'trait.py',
      "    traits = trait_obj.get_all_by_resource_provider(context, rp)\n",
      "    traits = trait_obj.get_all_by_resource_provider(context, rp)\n"
      "    rp.set_traits(traits)\n", 'R10.6'),
    M('c10-consumer-update-generation', O + 'consumer.py',
      "                consumer_type_id=self.consumer_type_id)\n            # NOTE(jaypipes): We add",
      "                consumer_type_id=self.consumer_type_id,\n"
      "                generation=self.generation)\n            # NOTE(jaypipes): We add",
      'R10.4'),
    M('c10-skip-provider-loop', O + 'allocation.py',
      "    for rp in visited_rps.values():\n        rp.increment_generation()\n",
      "    if len(allocs) > 1:\n        for rp in visited_rps.values():\n"
      "            rp.increment_generation()\n", 'R10.2'),
    M('c10-continue-before-visit', O + 'allocation.py',
      "        if alloc.consumer.id not in visited_consumers:\n"
      "            visited_consumers[alloc.consumer.id] = alloc.consumer\n",
      "        if alloc.used == 0 and len(allocs) > 1:\n            continue\n"
      "        if alloc.consumer.id not in visited_consumers:\n"
      "            visited_consumers[alloc.consumer.id] = alloc.consumer\n",
      'R10.2'),
    M('c10-provider-map-after-skip', O + 'allocation.py',
      "        if rp_uuid not in res_providers:\n"
      "            res_providers[rp_uuid] = alloc.resource_provider\n"
      "        amount_needed = alloc.used\n"
      "        rp_resource_class_sum[rp_uuid][rc_id] += amount_needed\n"
      "        # No use checking usage if we're not asking for anything\n"
      "        if amount_needed == 0:\n            continue\n",
      "        amount_needed = alloc.used\n"
      "        rp_resource_class_sum[rp_uuid][rc_id] += amount_needed\n"
      "        # No use checking usage if we're not asking for anything\n"
      "        if amount_needed == 0:\n            continue\n"
      "        if rp_uuid not in res_providers:\n"
      "            res_providers[rp_uuid] = alloc.resource_provider\n",
      'R10.2'),
    M('c10-response-from-reread', H + 'inventory.py',
      "    return _send_inventories(req, resource_provider, inventories)\n",
      "    fresh = rp_obj.ResourceProvider.get_by_uuid(context, uuid)\n"
      "    return _send_inventories(req, fresh, inventories)\n", 'R10.5'),
    B('c10-benign-rename', RP,
      "    rc_id = context.rc_cache.id_from_string(inventory.resource_class)\n"
      "    _add_inventory_to_provider(\n        context, rp, [inventory], set([rc_id]))\n"
      "    rp.increment_generation()\n",
      "    rcid = context.rc_cache.id_from_string(inventory.resource_class)\n"
      "    _add_inventory_to_provider(\n        context, rp, [inventory], {rcid})\n"
      "    rp.increment_generation()\n"),
    B('c10-benign-incr-in-both-branches', RP,
      "    if to_add:\n        _add_traits_to_provider(context, rp.id, to_add)\n    rp.increment_generation()\n",
      "    if to_add:\n        _add_traits_to_provider(context, rp.id, to_add)\n"
      "        rp.increment_generation()\n    else:\n        rp.increment_generation()\n"),
]

CONTROLS['C05'] = [
    M('c05-drop-generation-conjunct', RP,
      "        upd_stmt = _RP_TBL.update().where(sa.and_(\n"
      "            _RP_TBL.c.id == self.id,\n"
      "            _RP_TBL.c.generation == rp_gen)).values(",
      "        upd_stmt = _RP_TBL.update().where(sa.and_(\n"
      "            _RP_TBL.c.id == self.id)).values(", 'R5.1'),
    M('c05-rowcount-gt', RP,
      "        if res.rowcount != 1:\n            raise exception.ResourceProviderConcurrentUpdateDetected()",
      "        if res.rowcount > 1:\n            raise exception.ResourceProviderConcurrentUpdateDetected()",
      'R5.1'),
    M('c05-no-plus-one', RP,
      "        new_generation = rp_gen + 1\n        upd_stmt = _RP_TBL",
      "        new_generation = rp_gen\n        upd_stmt = _RP_TBL", 'R5.1'),
    M('c05-where-memory-after-bump', RP,
      "        rp_gen = self.generation\n        new_generation = rp_gen + 1\n",
      "        rp_gen = self.generation\n        new_generation = rp_gen + 1\n"
      "        self.generation = new_generation\n", 'R5.1'),
    M('c05-drop-early-check', H + 'inventory.py',
      "    data = _extract_inventories(req.body, schema.PUT_INVENTORY_SCHEMA)\n"
      "    if data['resource_provider_generation'] != resource_provider.generation:\n"
      "        raise webob.exc.HTTPConflict(\n"
      "            'resource provider generation conflict',\n"
      "            comment=errors.CONCURRENT_UPDATE)\n",
      "    data = _extract_inventories(req.body, schema.PUT_INVENTORY_SCHEMA)\n",
      'R5.2'),
    M('c05-check-after-mutator', H + 'trait.py',
      "    if resource_provider.generation != rp_gen:\n"
      "        raise webob.exc.HTTPConflict(\n"
      "            \"Resource provider's generation already changed. Please update \"\n"
      "            \"the generation and try again.\",\n"
      "            json_formatter=util.json_error_formatter,\n"
      "            comment=errors.CONCURRENT_UPDATE)\n",
      "    if resource_provider.generation < rp_gen:\n"
      "        raise webob.exc.HTTPConflict(\n"
      "            \"Resource provider's generation already changed. Please update \"\n"
      "            \"the generation and try again.\",\n"
      "            json_formatter=util.json_error_formatter,\n"
      "            comment=errors.CONCURRENT_UPDATE)\n", 'R5.2'),
    M('c05-reread-after-check', H + 'inventory.py',
      "    inventory = make_inventory_object(resource_provider,\n"
      "                                      resource_class,\n"
      "                                      **data)\n\n    try:\n"
      "        _validate_inventory_capacity(\n"
      "            req.environ[microversion.MICROVERSION_ENVIRON], inventory)\n"
      "        resource_provider.update_inventory(inventory)",
      "    inventory = make_inventory_object(resource_provider,\n"
      "                                      resource_class,\n"
      "                                      **data)\n\n    try:\n"
      "        _validate_inventory_capacity(\n"
      "            req.environ[microversion.MICROVERSION_ENVIRON], inventory)\n"
      "        rp_obj.ResourceProvider.get_by_uuid(\n"
      "            context, uuid).update_inventory(inventory)", 'R5.2'),
    M('c05-unmap-conflict-update-inventory', H + 'inventory.py',
      "        resource_provider.update_inventory(inventory)\n"
      "    except (exception.ConcurrentUpdateDetected,\n"
      "            db_exc.DBDuplicateEntry) as exc:",
      "        resource_provider.update_inventory(inventory)\n"
      "    except db_exc.DBDuplicateEntry as exc:", 'R5.3'),
    M('c05-reintroduce-F2', H + 'trait.py',
      "    try:\n        resource_provider.set_traits(trait_objs)\n"
      "    except exception.ConcurrentUpdateDetected as e:\n"
      "        raise webob.exc.HTTPConflict(e.format_message(),\n"
      "                                     comment=errors.CONCURRENT_UPDATE)\n",
      "    resource_provider.set_traits(trait_objs)\n", 'R5.3'),
    M('c05-wrong-error-code', H + 'inventory.py',
      "            'Unable to delete inventory for resource provider '\n"
      "            '%(rp_uuid)s because the inventory was updated by '\n"
      "            'another process. Please retry your request.' %\n"
      "            {'rp_uuid': resource_provider.uuid},\n"
      "            comment=errors.CONCURRENT_UPDATE)",
      "            'Unable to delete inventory for resource provider '\n"
      "            '%(rp_uuid)s because the inventory was updated by '\n"
      "            'another process. Please retry your request.' %\n"
      "            {'rp_uuid': resource_provider.uuid},\n"
      "            comment=errors.INVENTORY_INUSE)", 'R5.3'),
    M('c05-conflict-as-400', H + 'aggregate.py',
      "    except exception.ConcurrentUpdateDetected as exc:\n"
      "        raise webob.exc.HTTPConflict(",
      "    except exception.ConcurrentUpdateDetected as exc:\n"
      "        raise webob.exc.HTTPBadRequest(", 'R5.3'),
    M('c05-aggregate-check-wrong-gate', H + 'aggregate.py',
      "    if consider_generation:\n        # Check for generation conflict\n",
      "    if want_version.matches((1, 21)):\n        # Check for generation conflict\n",
      'R5.2'),
    B('c05-benign-swap-sides', H + 'inventory.py',
      "    data = _extract_inventory(req.body, schema.BASE_INVENTORY_SCHEMA)\n"
      "    if data['resource_provider_generation'] != resource_provider.generation:",
      "    data = _extract_inventory(req.body, schema.BASE_INVENTORY_SCHEMA)\n"
      "    if resource_provider.generation != data['resource_provider_generation']:"),
    B('c05-benign-rename-gen', RP,
      "        rp_gen = self.generation\n        new_generation = rp_gen + 1\n"
      "        upd_stmt = _RP_TBL.update().where(sa.and_(\n"
      "            _RP_TBL.c.id == self.id,\n"
      "            _RP_TBL.c.generation == rp_gen)).values(",
      "        gen = self.generation\n        new_generation = 1 + gen\n"
      "        upd_stmt = _RP_TBL.update().where(sa.and_(\n"
      "            _RP_TBL.c.generation == gen,\n"
      "            _RP_TBL.c.id == self.id)).values("),
]

HA = H + 'allocation.py'
HU = H + 'util.py'
CONTROLS['C04'] = [
    M('c04-unscope-put-closure', HA,
      "    @db_api.placement_context_manager.writer\n"
      "    def _update_consumers_and_create_allocations(ctx):\n"
      "        # Update consumer attributes if requested attributes are different.\n"
      "        # NOTE(melwitt): This will not raise ConcurrentUpdateDetected, that\n"
      "        # happens later in AllocationList.replace_all()\n"
      "        data_util.update_consumers([consumer], {consumer_uuid: request_attr})",
      "    def _update_consumers_and_create_allocations(ctx):\n"
      "        # Update consumer attributes if requested attributes are different.\n"
      "        # NOTE(melwitt): This will not raise ConcurrentUpdateDetected, that\n"
      "        # happens later in AllocationList.replace_all()\n"
      "        data_util.update_consumers([consumer], {consumer_uuid: request_attr})",
      'R4.2'),
    B('c04-benign-unscope-inner-reshape', O + 'reshaper.py',
      "@db_api.placement_context_manager.writer\ndef reshape(ctx, inventories, allocations):",
      "def reshape(ctx, inventories, allocations):"),
    M2('c04-unscope-reshape-both',
       [(O + 'reshaper.py',
         "@db_api.placement_context_manager.writer\ndef reshape(ctx, inventories, allocations):",
         "def reshape(ctx, inventories, allocations):"),
        (H + 'reshaper.py',
         "    @db_api.placement_context_manager.writer\n    def _update_consumers_and_create_allocations(ctx):",
         "    def _update_consumers_and_create_allocations(ctx):")], 'R4.2'),
    M('c04-drop-cleanup-post', HA,
      "        except Exception:\n            with excutils.save_and_reraise_exception():\n"
      "                delete_consumers(new_consumers_created)\n\n    try:\n        _create_allocations()\n    except exception.NotFound as exc:\n"
      "        raise webob.exc.HTTPBadRequest(\n            \"Unable to allocate inventory %(error)s\"",
      "        except Exception:\n            with excutils.save_and_reraise_exception():\n"
      "                pass\n\n    try:\n        _create_allocations()\n    except exception.NotFound as exc:\n"
      "        raise webob.exc.HTTPBadRequest(\n            \"Unable to allocate inventory %(error)s\"",
      'R4.3'),
    M('c04-reintroduce-F6-post', HA,
      "    try:\n        allocations = create_allocation_list(context, data, consumers)\n"
      "    except Exception:\n"
      "        # Do not leave the consumers we auto-created behind when the request\n"
      "        # is rejected before we even try to write the allocations.\n"
      "        with excutils.save_and_reraise_exception():\n"
      "            delete_consumers(new_consumers_created)\n",
      "    allocations = create_allocation_list(context, data, consumers)\n",
      'R4.3'),
    M2('c04-reintroduce-F6-put',
       [(HA, "    rp_objs = _resource_providers_by_uuid(context, allocation_data.keys())\n\n"
             "    allocation_objects = []", "    allocation_objects = []"),
        (HA, "            data.get('consumer_type'), want_version))\n\n    if not allocation_data:",
             "            data.get('consumer_type'), want_version))\n"
             "    rp_objs = _resource_providers_by_uuid(context, allocation_data.keys())\n\n"
             "    if not allocation_data:")], 'R4.3'),
    M('c04-cleanup-wrong-list', H + 'reshaper.py',
      "                allocation.delete_consumers(new_consumers_created)\n\n    try:\n        _create_allocations()",
      "                allocation.delete_consumers([])\n\n    try:\n        _create_allocations()",
      'R4.3'),
    M('c04-swallow-in-scope', HA,
      "        alloc_obj.replace_all(ctx, allocations)\n        # A consumer auto-created for an entry",
      "        try:\n            alloc_obj.replace_all(ctx, allocations)\n"
      "        except exception.InvalidInventory:\n            pass\n"
      "        # A consumer auto-created for an entry", 'R4.'),
    M('c04-swallow-in-object-layer', RP,
      "    if to_delete:\n        _delete_inventory_from_provider(context, rp, to_delete)\n    if to_add:\n        _add_inventory_to_provider(context, rp, inv_list, to_add)",
      "    if to_delete:\n        try:\n            _delete_inventory_from_provider(context, rp, to_delete)\n"
      "        except exception.InventoryInUse:\n            LOG.warning('in use')\n"
      "    if to_add:\n        _add_inventory_to_provider(context, rp, inv_list, to_add)",
      'R4.4'),
    M('c04-raw-write-in-handler', H + 'trait.py',
      "    resource_provider = rp_obj.ResourceProvider.get_by_uuid(context, uuid)\n    try:\n        resource_provider.set_traits([])",
      "    resource_provider = rp_obj.ResourceProvider.get_by_uuid(context, uuid)\n"
      "    rp_obj._delete_traits_from_provider(context, resource_provider.id, [1])\n"
      "    try:\n        resource_provider.set_traits([])",
      'R4.1'),
    M('c04-two-transactions', H + 'inventory.py',
      "        resource_provider.set_inventory([])\n    except exception.ConcurrentUpdateDetected:",
      "        resource_provider.set_inventory([])\n        resource_provider.set_traits([])\n    except exception.ConcurrentUpdateDetected:",
      'R4.2'),
    M('c04-error-by-status', H + 'resource_class.py',
      "    req.response.status = status\n    req.response.content_type = None\n    req.response.location = util.resource_class_url(req.environ, rc)",
      "    req.response.status = 409 if status == 204 else status\n    req.response.content_type = None\n    req.response.location = util.resource_class_url(req.environ, rc)",
      'R4.5'),
    M('c04-inspect-no-cleanup', HA,
      "            with excutils.save_and_reraise_exception():\n                delete_consumers(new_consumers_created)\n    return consumers, new_consumers_created, requested_attrs",
      "            raise\n    return consumers, new_consumers_created, requested_attrs",
      'R4.3'),
    B('c04-benign-rename-closure', H + 'reshaper.py',
      "    def _create_allocations():\n        try:\n"
      "            # NOTE(melwitt): Group the consumer and allocation database updates\n"
      "            # in a single transaction so that updates get rolled back\n"
      "            # automatically in the event of a consumer generation conflict.\n"
      "            _update_consumers_and_create_allocations(context)\n"
      "        except Exception:\n"
      "            with excutils.save_and_reraise_exception():\n"
      "                allocation.delete_consumers(new_consumers_created)\n\n"
      "    try:\n        _create_allocations()",
      "    def _write():\n        try:\n"
      "            _update_consumers_and_create_allocations(context)\n"
      "        except Exception:\n"
      "            with excutils.save_and_reraise_exception():\n"
      "                allocation.delete_consumers(new_consumers_created)\n\n"
      "    try:\n        _write()"),
]

CONTROLS['C06'] = [
    M('c06-drop-generation-conjunct', O + 'consumer.py',
      "        upd_stmt = CONSUMER_TBL.update().where(sa.and_(\n"
      "            CONSUMER_TBL.c.id == self.id,\n"
      "            CONSUMER_TBL.c.generation == consumer_gen)).values(",
      "        upd_stmt = CONSUMER_TBL.update().where(sa.and_(\n"
      "            CONSUMER_TBL.c.id == self.id)).values(", 'R6.1'),
    M('c06-rowcount-zero-ok', O + 'consumer.py',
      "        if res.rowcount != 1:\n            raise exception.ConcurrentUpdateDetected",
      "        if res.rowcount > 1:\n            raise exception.ConcurrentUpdateDetected",
      'R6.1'),
    M('c06-drop-compare', HU,
      "        if requires_consumer_generation:\n            if consumer.generation != consumer_generation:",
      "        if requires_consumer_generation and consumer_type:\n            if consumer.generation != consumer_generation:",
      'R6.2'),
    M('c06-compare-wrong-gate', HU,
      "    requires_consumer_generation = want_version.matches((1, 28))",
      "    requires_consumer_generation = want_version.matches((1, 29))",
      'R6.2'),
    M('c06-reintroduce-F3', HU,
      "            ctx, consumer_uuid, proj, user, cons_type_id,\n            expect_new=requires_consumer_generation)",
      "            ctx, consumer_uuid, proj, user, cons_type_id)", 'R6.2'),
    M('c06-F3-flag-inverted', HU,
      "        if expect_new:\n", "        if not expect_new:\n", 'R6.2'),
    M('c06-drop-null-check', HU,
      "            if consumer_generation is not None:\n                raise webob.exc.HTTPConflict(",
      "            if consumer_generation is not None and consumer_type:\n                raise webob.exc.HTTPConflict(",
      'R6.2'),
    M('c06-update-writes-generation', O + 'consumer.py',
      "                consumer_type_id=self.consumer_type_id)\n            # NOTE(jaypipes): We add",
      "                consumer_type_id=self.consumer_type_id,\n"
      "                generation=self.generation + 1)\n            # NOTE(jaypipes): We add",
      'R6.3'),
    M('c06-reintroduce-F11-put', HA,
      "            allocation.used = 0\n"
      "            # Write with the consumer whose generation has been checked\n"
      "            # against the request, not the one re-read just now.\n"
      "            allocation.consumer = consumer\n",
      "            allocation.used = 0\n", 'R6.4'),
    M('c06-reintroduce-F11-post', HA,
      "                allocation.used = 0\n"
      "                # Write with the consumer whose generation has been checked\n"
      "                # against the request, not the one re-read just now.\n"
      "                allocation.consumer = consumer\n",
      "                allocation.used = 0\n", 'R6.4'),
    M('c06-new-allocs-reread-consumer', HA,
      "                new_allocations = _new_allocations(context,\n"
      "                                                   resource_provider,\n"
      "                                                   consumer,\n"
      "                                                   resources)",
      "                fresh = consumer_obj_get(context, consumer_uuid)\n"
      "                new_allocations = _new_allocations(context,\n"
      "                                                   resource_provider,\n"
      "                                                   fresh,\n"
      "                                                   resources)", 'R6.4'),
    M('c06-skip-consumer-increments', O + 'allocation.py',
      "    for consumer in visited_consumers.values():\n        consumer.increment_generation()\n",
      "    for consumer in visited_consumers.values():\n        if consumer.generation:\n"
      "            consumer.increment_generation()\n", 'R6.3'),
    M('c06-duplicate-not-mapped', O + 'consumer.py',
      "            except db_exc.DBDuplicateEntry:\n                raise exception.ConsumerExists(uuid=self.uuid)",
      "            except db_exc.DBDuplicateEntry:\n                raise exception.ConsumerNotFound(uuid=self.uuid)",
      'R6.3'),
    B('c06-benign-compare-sides', HU,
      "            if consumer.generation != consumer_generation:",
      "            if consumer_generation != consumer.generation:"),
]

OA = O + 'allocation.py'
CONTROLS['C01'] = [
    M('c01-drop-max-unit', OA,
      "        if (amount_needed < min_unit or amount_needed > max_unit or\n"
      "                amount_needed % step_size != 0):",
      "        if (amount_needed < min_unit or\n"
      "                amount_needed % step_size != 0):", 'R1.3'),
    M('c01-max-unit-ge', OA,
      "amount_needed < min_unit or amount_needed > max_unit or",
      "amount_needed < min_unit or amount_needed >= max_unit or", 'R1.3'),
    M('c01-capacity-ignores-request', OA,
      "        if (capacity < (used + amount_needed) or\n"
      "                capacity < (used + rp_resource_class_sum[rp_uuid][rc_id])):",
      "        if capacity < used:", 'R1.3'),
    M('c01-capacity-drops-running-sum', OA,
      "        if (capacity < (used + amount_needed) or\n"
      "                capacity < (used + rp_resource_class_sum[rp_uuid][rc_id])):",
      "        if capacity < (used + amount_needed):", 'R1.3'),
    M('c01-capacity-le', OA,
      "capacity < (used + rp_resource_class_sum[rp_uuid][rc_id])):",
      "capacity <= (used + rp_resource_class_sum[rp_uuid][rc_id])):", 'R1.3'),
    M('c01-reserved-omitted', OA,
      "        capacity = (usage.total - usage.reserved) * allocation_ratio",
      "        capacity = usage.total * allocation_ratio", 'R1.3'),
    M('c01-skip-widened', OA,
      "        if amount_needed == 0:\n            continue\n        key = (rp_uuid, rc_id)",
      "        if amount_needed <= 1:\n            continue\n        key = (rp_uuid, rc_id)",
      'R1.3'),
    M('c01-missing-inventory-skipped', OA,
      "        except KeyError:\n            # The resource class at rc_id is not in the usage map.\n"
      "            raise exception.InvalidInventory(\n"
      "                resource_class=alloc.resource_class,\n"
      "                resource_provider=rp_uuid)",
      "        except KeyError:\n            # The resource class at rc_id is not in the usage map.\n"
      "            continue", 'R1.3'),
    M('c01-check-before-delete', OA,
      "    consumer_ids = set(alloc.consumer.uuid for alloc in allocs)\n"
      "    for consumer_id in consumer_ids:\n"
      "        _delete_allocations_for_consumer(context, consumer_id)\n",
      "    visited_rps = _check_capacity_exceeded(context, allocs)\n"
      "    consumer_ids = set(alloc.consumer.uuid for alloc in allocs)\n"
      "    for consumer_id in consumer_ids:\n"
      "        _delete_allocations_for_consumer(context, consumer_id)\n",
      'R1.2'),
    M('c01-check-positive-only', OA,
      "    visited_rps = _check_capacity_exceeded(context, allocs)\n    for alloc in allocs:",
      "    visited_rps = _check_capacity_exceeded(\n        context, [a for a in allocs if a.used > 1])\n    for alloc in allocs:",
      'R1.2'),
    M('c01-second-writer', OA,
      "    _delete_allocations_by_ids(context, alloc_ids)\n",
      "    _delete_allocations_by_ids(context, alloc_ids)\n"
      "    context.session.execute(_ALLOC_TBL.insert().values(used=0))\n",
      'R1.1'),
    M('c01-swallow-in-replace-all', OA,
      "        except exception.ResourceProviderConcurrentUpdateDetected:\n            LOG.debug('Retrying",
      "        except exception.InvalidInventory:\n            break\n"
      "        except exception.ResourceProviderConcurrentUpdateDetected:\n            LOG.debug('Retrying",
      'R1.2', accept_analysis_error=True),
    M('c01-schema-minimum-zero', 'placement/schemas/allocation.py',
      "                            common.RC_PATTERN: {\n"
      "                                \"type\": \"integer\",\n"
      "                                \"minimum\": 1,\n"
      "                            }\n                        },\n"
      "                        \"additionalProperties\": False\n                    }\n                },\n"
      "                \"required\": [\n                    \"resource_provider\",",
      "                            common.RC_PATTERN: {\n"
      "                                \"type\": \"integer\",\n"
      "                                \"minimum\": 0,\n"
      "                            }\n                        },\n"
      "                        \"additionalProperties\": False\n                    }\n                },\n"
      "                \"required\": [\n                    \"resource_provider\",",
      'R1.5'),
    M('c01-schema-number', 'placement/schemas/allocation.py',
      "                                common.RC_PATTERN: {\n"
      "                                    \"type\": \"integer\",",
      "                                common.RC_PATTERN: {\n"
      "                                    \"type\": \"number\",", 'R1.5'),
    M('c01-reshape-final-first', O + 'reshaper.py',
      "    # Now we can replace all the allocations\n"
      "    LOG.debug(\"reshaping: attempting allocation replacement\")\n"
      "    alloc_obj.replace_all(ctx, allocations)\n",
      "", 'R1.4'),
    M('c01-inuse-guard-dropped', RP,
      "    if allocations:\n        resource_classes = ', '.join(",
      "    if allocations and len(to_delete) > 1:\n        resource_classes = ', '.join(",
      'R1.4'),
    B('c01-benign-rename', OA,
      "        amount_needed = alloc.used\n        rp_resource_class_sum[rp_uuid][rc_id] += amount_needed\n",
      "        amount_needed = alloc.used\n        rp_resource_class_sum[rp_uuid][rc_id] += alloc.used\n"),
    B('c01-benign-rewrite', OA,
      "        if (capacity < (used + amount_needed) or\n"
      "                capacity < (used + rp_resource_class_sum[rp_uuid][rc_id])):",
      "        if (used + rp_resource_class_sum[rp_uuid][rc_id]) > capacity:"),
    B('c01-benign-constraint-order', OA,
      "        if (amount_needed < min_unit or amount_needed > max_unit or\n"
      "                amount_needed % step_size != 0):",
      "        if (amount_needed % step_size != 0 or max_unit < amount_needed\n"
      "                or min_unit > amount_needed):"),
]

CONTROLS['C08'] = [
    M('c08-drop-inuse-raise', RP,
      "        raise exception.InventoryInUse(resource_classes=resource_classes,\n"
      "                                       resource_provider=rp.uuid)\n",
      "        LOG.warning('in use: %s', resource_classes)\n", 'R8.2'),
    M('c08-consumer-delete-without-null', O + 'consumer.py',
      "    subq = subq.where(sa.and_(\n        _ALLOC_TBL.c.consumer_id.is_(None),\n",
      "    subq = subq.where(sa.and_(\n", 'R8.2'),
    M('c08-no-trait-cascade', RP,
      "        context.session.query(RPT_model).filter(\n"
      "            RPT_model.resource_provider_id == _id).delete()\n", "",
      'R8.3'),
    M('c08-raw-delete-in-handler', H + 'inventory.py',
      "    resource_provider = rp_obj.ResourceProvider.get_by_uuid(\n        context, uuid)\n\n    try:\n        resource_provider.set_inventory([])",
      "    resource_provider = rp_obj.ResourceProvider.get_by_uuid(\n        context, uuid)\n"
      "    context.session.execute(rp_obj._INV_TBL.delete())\n\n    try:\n        resource_provider.set_inventory([])",
      'R8.1'),
    M('c08-inuse-as-400', H + 'resource_provider.py',
      "    except exception.ResourceProviderInUse as exc:\n        raise webob.exc.HTTPConflict(",
      "    except exception.ResourceProviderInUse as exc:\n        raise webob.exc.HTTPBadRequest(",
      'R8.5'),
    M('c08-inuse-unmapped', H + 'resource_class.py',
      "    except exception.ResourceClassInUse as exc:\n        raise webob.exc.HTTPConflict(\n"
      "            'Error in delete resource class: %(error)s' % {'error': exc})\n",
      "", 'R8.5'),
    M('c08-class-delete-unguarded', O + 'resource_class.py',
      "        if num_inv:\n            raise exception.ResourceClassInUse(resource_class=name)\n",
      "", 'R8.2'),
    M('c08-trait-guard-after-delete', O + 'trait.py',
      "        num = context.session.query(models.ResourceProviderTrait).filter(\n"
      "            models.ResourceProviderTrait.trait_id == _id).count()\n"
      "        if num:\n            raise exception.TraitInUse(name=name)\n\n"
      "        res = context.session.query(models.Trait).filter_by(\n            name=name).delete()\n",
      "        res = context.session.query(models.Trait).filter_by(\n            name=name).delete()\n"
      "        num = context.session.query(models.ResourceProviderTrait).filter(\n"
      "            models.ResourceProviderTrait.trait_id == _id).count()\n"
      "        if num:\n            LOG.warning('trait %s still in use', name)\n",
      'R8.2'),
    M('c08-provider-delete-skips-alloc-check', RP,
      "        if rp_allocations:\n            raise exception.ResourceProviderInUse()\n",
      "        if rp_allocations and rp_allocations > 1:\n            pass\n",
      'R8.2'),
    M('c08-child-check-dropped', RP,
      "        if _has_child_providers(context, _id):\n            raise exception.CannotDeleteParentResourceProvider()\n",
      "", 'R8.2'),
    M('c08-unknown-trait-not-rejected', H + 'trait.py',
      "    if non_existed_trait:\n        raise webob.exc.HTTPBadRequest(\n"
      "            \"No such trait %s\" % ', '.join(non_existed_trait))\n",
      "", 'R8.4'),
    M('c08-guard-other-table', RP,
      "    allocation_query = sa.select(\n        _ALLOC_TBL.c.resource_class_id.label('resource_class'),\n    ).where(\n"
      "        sa.and_(_ALLOC_TBL.c.resource_provider_id == rp.id,\n"
      "                _ALLOC_TBL.c.resource_class_id.in_(to_delete))\n"
      "    ).group_by(_ALLOC_TBL.c.resource_class_id)",
      "    allocation_query = sa.select(\n        _INV_TBL.c.resource_class_id.label('resource_class'),\n    ).where(\n"
      "        sa.and_(_INV_TBL.c.resource_provider_id == rp.id,\n"
      "                _INV_TBL.c.total < 0)\n"
      "    ).group_by(_INV_TBL.c.resource_class_id)", 'R8.2'),
    B('c08-benign-reorder-cascade', RP,
      "        # Delete any aggregate associations for the resource provider\n"
      "        # The name substitution on the next line is needed to satisfy pep8\n"
      "        RPA_model = models.ResourceProviderAggregate\n"
      "        context.session.query(RPA_model).filter(\n"
      "            RPA_model.resource_provider_id == _id).delete()\n"
      "        # delete any trait associations for the resource provider\n"
      "        RPT_model = models.ResourceProviderTrait\n"
      "        context.session.query(RPT_model).filter(\n"
      "            RPT_model.resource_provider_id == _id).delete()\n",
      "        RPT_model = models.ResourceProviderTrait\n"
      "        context.session.query(RPT_model).filter(\n"
      "            RPT_model.resource_provider_id == _id).delete()\n"
      "        RPA_model = models.ResourceProviderAggregate\n"
      "        context.session.query(RPA_model).filter(\n"
      "            RPA_model.resource_provider_id == _id).delete()\n"),
]


def reuse(prop, cid, new_id, expect, **kw):
    for c in CONTROLS[prop]:
        if c['id'] == cid:
            d = dict(c)
            d['id'] = new_id
            if expect is None:
                d['benign'] = True
                d.pop('expect', None)
            else:
                d['expect'] = expect
                d.pop('benign', None)
            d.update(kw)
            return d
    raise KeyError(cid)


CONTROLS['C18'] = [
    reuse('C04', 'c04-unscope-put-closure', 'c18-unscope-put-closure', 'R18b'),
    reuse('C04', 'c04-unscope-reshape-both', 'c18-unscope-reshape-both', 'R18b'),
    reuse('C04', 'c04-raw-write-in-handler', 'c18-raw-write-in-handler', 'R18a'),
    reuse('C04', 'c04-two-transactions', 'c18-two-transactions', 'R18b'),
    reuse('C04', 'c04-benign-unscope-inner-reshape', 'c18-benign-unscope-inner', None),
    reuse('C06', 'c06-reintroduce-F3', 'c18-consumer-update-outside-main-tx', 'R18b'),
    M('c18-set-inventory-unscoped', RP,
      "@db_api.placement_context_manager.writer\ndef _set_inventory(context, rp, inv_list):",
      "def _set_inventory(context, rp, inv_list):", 'R18'),
    M('c18-update-in-db-unscoped', RP,
      "    @db_api.placement_context_manager.writer\n    def _update_in_db(self, context, id, updates, allow_reparenting):",
      "    def _update_in_db(self, context, id, updates, allow_reparenting):",
      'R18'),
    M('c18-aux-root-writes-core', HU,
      "        cons_type = consumer_type_obj.ConsumerType(ctx, name=name)\n",
      "        cons_type = consumer_type_obj.ConsumerType(ctx, name=name)\n"
      "        from placement.objects import trait as _t\n"
      "        _t.Trait(ctx, name='CUSTOM_' + name).create()\n", 'R18b'),
    M('c18-update-consumers-before-closure', H + 'reshaper.py',
      "    def _create_allocations():\n        try:\n",
      "    def _create_allocations():\n        data_util.update_consumers(consumers.values(), requested_attrs)\n        try:\n",
      'R18b'),
]

CONTROLS['C07'] = [
    reuse('C01', 'c01-check-before-delete', 'c07-check-before-delete', 'R7.1'),
    reuse('C01', 'c01-check-positive-only', 'c07-check-other-list', 'R7.1'),
    reuse('C10', 'c10-skip-provider-loop', 'c07-skip-provider-cas', 'R7.2'),
    reuse('C10', 'c10-continue-before-visit', 'c07-consumer-cas-incomplete', 'R7.2'),
    reuse('C10', 'c10-provider-map-after-skip', 'c07-provider-map-incomplete', 'R7.2'),
    reuse('C04', 'c04-drop-cleanup-post', 'c07-drop-cleanup', 'R7.3'),
    reuse('C01', 'c01-swallow-in-replace-all', 'c07-absorb-rejection', 'R7.'),
    M('c07-retry-catches-all-conflicts', OA,
      "        except exception.ResourceProviderConcurrentUpdateDetected:\n            LOG.debug('Retrying",
      "        except exception.ConcurrentUpdateDetected:\n            LOG.debug('Retrying",
      'R7.4'),
    M('c07-unbounded-retry', OA,
      "    while retries:\n        retries -= 1\n", "    while retries:\n", 'R7.4'),
    M('c07-exhaustion-silent', OA,
      "                    context.config.placement.allocation_conflict_retry_count)\n"
      "        raise exception.ResourceProviderConcurrentUpdateDetected()",
      "                    context.config.placement.allocation_conflict_retry_count)",
      'R7.4'),
    M('c07-cas-failure-ignored', OA,
      "    for rp in visited_rps.values():\n        rp.increment_generation()\n",
      "    for rp in visited_rps.values():\n        try:\n            rp.increment_generation()\n"
      "        except exception.ConcurrentUpdateDetected:\n            LOG.debug('raced')\n",
      'R7.'),
    reuse('C10', 'c10-drop-incr-delete-inventory', 'c07-inventory-change-no-cas', 'R7.5'),
    reuse('C10', 'c10-benign-rename', 'c07-benign-rename', None),
]

CONTROLS['C12'] = [
    M('c12-no-cleanup-in-write', OA,
      "    consumer_obj.delete_consumers_if_no_allocations(\n        context, consumers_to_check)\n",
      "", 'R12.2'),
    M('c12-cleanup-conditional', OA,
      "    consumer_obj.delete_consumers_if_no_allocations(\n        context, consumers_to_check)\n",
      "    if len(allocs) > 1:\n        consumer_obj.delete_consumers_if_no_allocations(\n            context, consumers_to_check)\n",
      'R12.2'),
    M('c12-no-cleanup-in-delete', OA,
      "    _delete_allocations_by_ids(context, alloc_ids)\n    consumer_obj.delete_consumers_if_no_allocations(\n        context, consumer_uuids)\n",
      "    _delete_allocations_by_ids(context, alloc_ids)\n", 'R12.2'),
    M('c12-positive-filter-weakened', OA,
      "    cons_with_allocs = set(a.consumer.uuid for a in allocs if a.used > 0)",
      "    cons_with_allocs = set(a.consumer.uuid for a in allocs if a.used >= 0)",
      'R12.2'),
    M('c12-placeholder-user-from-project', HU,
      "        user_id = ctx.config.placement.incomplete_consumer_user_id",
      "        user_id = ctx.config.placement.incomplete_consumer_project_id",
      'R12.5'),
    M('c12-placeholder-after-lookup', HU,
      "    if project_id is None:\n        project_id = ctx.config.placement.incomplete_consumer_project_id\n"
      "        user_id = ctx.config.placement.incomplete_consumer_user_id\n"
      "    proj = _get_or_create_project(ctx, project_id)\n",
      "    proj = _get_or_create_project(ctx, project_id)\n"
      "    if project_id is None:\n        project_id = ctx.config.placement.incomplete_consumer_project_id\n"
      "        user_id = ctx.config.placement.incomplete_consumer_user_id\n",
      'R12.5'),
    M('c12-reintroduce-F4-put', HA,
      "        if created_new_consumer:\n"
      "            # A consumer auto-created for a request that carried no\n"
      "            # allocations holds nothing: do not keep its record.\n"
      "            consumer_obj.delete_consumers_if_no_allocations(\n"
      "                ctx, [consumer_uuid])\n", "", 'R12.4'),
    M('c12-reintroduce-F4-reshaper', H + 'reshaper.py',
      "        consumer_obj.delete_consumers_if_no_allocations(\n"
      "            ctx, [consumer.uuid for consumer in new_consumers_created])\n",
      "", 'R12.4'),
    M('c12-F4-cleanup-before-write', HA,
      "        alloc_obj.replace_all(ctx, allocations)\n"
      "        # A consumer auto-created for an entry that carried no allocations\n"
      "        # holds nothing: do not keep its record.\n"
      "        consumer_obj.delete_consumers_if_no_allocations(\n"
      "            ctx, [consumer.uuid for consumer in new_consumers_created])\n",
      "        consumer_obj.delete_consumers_if_no_allocations(\n"
      "            ctx, [consumer.uuid for consumer in new_consumers_created])\n"
      "        alloc_obj.replace_all(ctx, allocations)\n", 'R12.4'),
    M('c12-second-creator', HU,
      "            consumer.project = project\n            consumer.user = user\n            consumer.update()\n",
      "            consumer.project = project\n            consumer.user = user\n            consumer.create()\n",
      'R12.1'),
    M('c12-update-outside-closure', HA,
      "    def _create_allocations():\n        try:\n"
      "            # NOTE(melwitt): Group the consumer and allocation database updates\n"
      "            # in a single transaction so that updates get rolled back\n"
      "            # automatically in the event of a consumer generation conflict.\n"
      "            _update_consumers_and_create_allocations(context)\n"
      "        except Exception:\n            with excutils.save_and_reraise_exception():\n"
      "                delete_consumers(new_consumers_created)",
      "    def _create_allocations():\n        try:\n"
      "            data_util.update_consumers(consumers.values(), requested_attrs)\n"
      "            _update_consumers_and_create_allocations(context)\n"
      "        except Exception:\n            with excutils.save_and_reraise_exception():\n"
      "                delete_consumers(new_consumers_created)", 'R12.5'),
    M('c12-type-gate-moved', HU,
      "    requires_consumer_type = want_version.matches((1, 38))",
      "    requires_consumer_type = want_version.matches((1, 37))", 'R12.5'),
    reuse('C04', 'c04-drop-cleanup-post', 'c12-drop-failure-cleanup', 'R12.3'),
    reuse('C04', 'c04-benign-rename-closure', 'c12-benign-rename-closure', None),
]

HRP = H + 'resource_provider.py'
CONTROLS['C09'] = [
    M('c09-no-loop-check', RP,
      "                if parent_uuid in subtree_rp_uuids:\n"
      "                    raise exception.ObjectActionError(\n"
      "                        action='update',\n"
      "                        reason='creating loop in the provider tree is '\n"
      "                               'not allowed.')\n", "", 'R9.1'),
    M('c09-loop-check-on-children-only', RP,
      "                subtree_rp_uuids = {rp.uuid for rp in subtree_rps}",
      "                subtree_rp_uuids = {rp.uuid for rp in subtree_rps[1:2]}",
      'R9.1'),
    M('c09-root-is-parent-id', RP,
      "                updates['root_provider_id'] = parent_ids.root_id\n"
      "                updates['parent_provider_id'] = parent_ids.id\n"
      "                self.root_provider_uuid = parent_ids.root_uuid\n"
      "                new_root_id = parent_ids.root_id",
      "                updates['root_provider_id'] = parent_ids.id\n"
      "                updates['parent_provider_id'] = parent_ids.id\n"
      "                self.root_provider_uuid = parent_ids.root_uuid\n"
      "                new_root_id = parent_ids.root_id", 'R9.2'),
    M('c09-subtree-gets-other-root', RP,
      "                self.root_provider_uuid = parent_ids.root_uuid\n"
      "                new_root_id = parent_ids.root_id",
      "                self.root_provider_uuid = parent_ids.root_uuid\n"
      "                new_root_id = parent_ids.id", 'R9.2'),
    M('c09-reparent-gate-1.36', HRP,
      "    allow_reparenting = want_version.matches((1, 37))",
      "    allow_reparenting = want_version.matches((1, 36))", 'R9.3'),
    M('c09-reparent-always-allowed', HRP,
      "        resource_provider.save(allow_reparenting=allow_reparenting)",
      "        resource_provider.save(allow_reparenting=True)", 'R9.3'),
    M('c09-unparent-ungated', RP,
      "                    if not allow_reparenting:\n"
      "                        raise exception.ObjectActionError(\n"
      "                            action='update',\n"
      "                            reason='un-parenting a provider is not currently '\n"
      "                                   'allowed.')\n", "", 'R9.1'),
    M('c09-reparent-gate-weakened', RP,
      "                if (my_ids.parent_id is not None and\n"
      "                        my_ids.parent_id != parent_ids.id and\n"
      "                        not allow_reparenting):",
      "                if (my_ids.parent_id is not None and\n"
      "                        my_ids.parent_id != parent_ids.root_id and\n"
      "                        not allow_reparenting):", 'R9.1'),
    M('c09-create-self-parent-ok', RP,
      "            if parent_uuid == self.uuid:\n                raise exception.ObjectActionError(\n"
      "                    action='create',",
      "            if parent_uuid == self.name:\n                raise exception.ObjectActionError(\n"
      "                    action='create',", 'R9.1'),
    M('c09-create-unknown-parent-ok', RP,
      "            if parent_ids is None:\n                raise exception.ObjectActionError(\n"
      "                    action='create',\n"
      "                    reason='parent provider UUID does not exist.')\n\n"
      "            parent_id = parent_ids.id",
      "            parent_id = parent_ids.id", 'R9.1'),
    M('c09-top-level-root-missing', RP,
      "            db_rp.root_provider_id = db_rp.id\n", "            pass\n",
      'R9.2'),
    M('c09-delete-parent-allowed', RP,
      "        if _has_child_providers(context, _id):\n            raise exception.CannotDeleteParentResourceProvider()\n",
      "", 'R9.4'),
    M('c09-oae-as-409', HRP,
      "    except exception.ObjectActionError as exc:\n        raise webob.exc.HTTPBadRequest(\n"
      "            'Unable to save resource provider",
      "    except exception.ObjectActionError as exc:\n        raise webob.exc.HTTPConflict(\n"
      "            'Unable to save resource provider", 'R9.5'),
    M('c09-subtree-rewrite-skips', RP,
      "        for rp in subtree_rps:\n            # If the parent is not updated",
      "        for rp in subtree_rps[:1]:\n            # If the parent is not updated",
      'R9.2'),
    B('c09-benign-compare-order', RP,
      "            if parent_uuid == self.uuid:\n                raise exception.ObjectActionError(\n"
      "                    action='create',",
      "            if self.uuid == parent_uuid:\n                raise exception.ObjectActionError(\n"
      "                    action='create',"),
]

SC = 'placement/schemas/common.py'
ORC = O + 'resource_class.py'
OT = O + 'trait.py'
HRC = H + 'resource_class.py'
CONTROLS['C19'] = [
    M('c19-reintroduce-F5', SC, 'r"^CUSTOM_%s+\\Z" % _RC_TRAIT_CHAR',
      '"^CUSTOM_%s+$" % _RC_TRAIT_CHAR', 'R19.1'),
    M('c19-no-end-anchor', SC, 'r"^CUSTOM_%s+\\Z" % _RC_TRAIT_CHAR',
      'r"^CUSTOM_%s+" % _RC_TRAIT_CHAR', 'R19.1'),
    M('c19-no-start-anchor', SC, 'r"^CUSTOM_%s+\\Z" % _RC_TRAIT_CHAR',
      'r"CUSTOM_%s+\\Z" % _RC_TRAIT_CHAR', 'R19.1'),
    M('c19-lowercase-allowed', SC, '_RC_TRAIT_CHAR = "[A-Z0-9_]"',
      '_RC_TRAIT_CHAR = "[A-Za-z0-9_]"', 'R19.1'),
    M('c19-empty-suffix', SC, 'r"^CUSTOM_%s+\\Z" % _RC_TRAIT_CHAR',
      'r"^CUSTOM_%s*\\Z" % _RC_TRAIT_CHAR', 'R19.1'),
    M('c19-maxlength-256', 'placement/schemas/resource_class.py',
      '"maxLength": 255,', '"maxLength": 256,', 'R19.2'),
    M('c19-trait-no-maxlength', 'placement/schemas/trait.py',
      "    'minLength': 1, 'maxLength': 255,\n", "    'minLength': 1,\n",
      'R19.2'),
    M('c19-min-id-1000', ORC, "    MIN_CUSTOM_RESOURCE_CLASS_ID = 10000",
      "    MIN_CUSTOM_RESOURCE_CLASS_ID = 1000", 'R19.4'),
    M('c19-destroy-standard-allowed', ORC,
      "        if self.id < ResourceClass.MIN_CUSTOM_RESOURCE_CLASS_ID:\n"
      "            raise exception.ResourceClassCannotDeleteStandard(\n"
      "                resource_class=self.name)\n", "", 'R19.4'),
    M('c19-save-guard-after-write', ORC,
      "        if self.id < ResourceClass.MIN_CUSTOM_RESOURCE_CLASS_ID:\n"
      "            raise exception.ResourceClassCannotUpdateStandard(\n"
      "                resource_class=self.name)\n"
      "        self._save(self._context, self.id, self.name, updates)\n",
      "        self._save(self._context, self.id, self.name, updates)\n"
      "        if self.id < ResourceClass.MIN_CUSTOM_RESOURCE_CLASS_ID:\n"
      "            raise exception.ResourceClassCannotUpdateStandard(\n"
      "                resource_class=self.name)\n", 'R19.4'),
    M('c19-next-id-no-floor', ORC,
      "        if not max_id or max_id < ResourceClass.MIN_CUSTOM_RESOURCE_CLASS_ID:\n"
      "            return ResourceClass.MIN_CUSTOM_RESOURCE_CLASS_ID\n"
      "        else:\n            return max_id + 1",
      "        if not max_id:\n"
      "            return ResourceClass.MIN_CUSTOM_RESOURCE_CLASS_ID\n"
      "        else:\n            return max_id + 1", 'R19.4'),
    M('c19-trait-standard-delete-allowed', OT,
      "        if not self.name.startswith(self.CUSTOM_NAMESPACE):\n"
      "            raise exception.TraitCannotDeleteStandard(name=self.name)\n",
      "", 'R19.4'),
    M('c19-id-collision-not-retried', ORC,
      "                if 'id' in e.columns:\n                    # Race condition for ID creation; try again\n                    continue\n", "",
      'R19.4'),
    M('c19-put-trait-unvalidated', H + 'trait.py',
      "    try:\n        jsonschema.validate(name, schema.CUSTOM_TRAIT)\n"
      "    except jsonschema.ValidationError:\n"
      "        raise webob.exc.HTTPBadRequest(\n"
      "            'The trait is invalid. A valid trait must be no longer than '\n"
      "            '255 characters, start with the prefix \"CUSTOM_\" and use '\n"
      "            'following characters: \"A\"-\"Z\", \"0\"-\"9\" and \"_\"')\n",
      "", 'R19.3'),
    M('c19-put-trait-weak-schema', H + 'trait.py',
      "        jsonschema.validate(name, schema.CUSTOM_TRAIT)",
      "        jsonschema.validate(name, schema.TRAIT)", 'R19.3'),
    M('c19-put-rc-validates-other-value', HRC,
      "    util.extract_json('{\"name\": \"%s\"}' % name, schema.PUT_RC_SCHEMA_V1_2)",
      "    util.extract_json('{\"name\": \"%s\"}' % name.strip(), schema.PUT_RC_SCHEMA_V1_2)",
      'R19.3'),
    M('c19-exists-as-500', HRC,
      "    except exception.ResourceClassExists:\n        raise webob.exc.HTTPConflict(\n"
      "            'Conflicting resource class already exists: %(name)s' %\n"
      "            {'name': data['name']})\n", "", 'R19.5'),
    M('c19-sync-not-at-startup', 'placement/deploy.py',
      "    trait.ensure_sync(ctx)\n", "", 'R19.6'),
    M('c19-sync-inserts-all', OT,
      "    batch_args = [\n        {'name': str(trait)}\n        for trait in need_sync\n    ]",
      "    batch_args = [\n        {'name': str(trait)}\n        for trait in std_traits\n    ]",
      'R19.6'),
    M('c19-class-ids-shifted', ORC,
      "    batch_args = [{'name': str(name), 'id': index}",
      "    batch_args = [{'name': str(name), 'id': index + 1}", 'R19.6'),
    B('c19-benign-pattern-equivalent', SC, '_RC_TRAIT_CHAR = "[A-Z0-9_]"',
      '_RC_TRAIT_CHAR = "[0-9A-Z_]"'),
]

RCX = O + 'research_context.py'
CONTROLS['C20'] = [
    M('c20-slice-one-more', RCX,
      "                alloc_request_objs = alloc_request_objs[:self._limit]",
      "                alloc_request_objs = alloc_request_objs[:self._limit + 1]",
      'R20.1'),
    M('c20-slice-from-one', RCX,
      "                alloc_request_objs = alloc_request_objs[:self._limit]",
      "                alloc_request_objs = alloc_request_objs[1:self._limit + 1]",
      'R20.1'),
    M('c20-sample-other-list', RCX,
      "                alloc_request_objs = random.sample(\n                    alloc_request_objs, self._limit)",
      "                alloc_request_objs = random.choices(\n                    alloc_request_objs, k=self._limit)",
      'R20.'),
    M('c20-limit-le', RCX,
      "        if self._limit and self._limit < len(alloc_request_objs):",
      "        if self._limit and self._limit <= len(alloc_request_objs) + 1:",
      'R20.1'),
    M('c20-shuffle-unconditional', RCX,
      "        elif self._ctx.config.placement.randomize_allocation_candidates:\n            random.shuffle(alloc_request_objs)",
      "        else:\n            random.shuffle(alloc_request_objs)", 'R20.2'),
    M('c20-sample-unconditional', RCX,
      "            if self._ctx.config.placement.randomize_allocation_candidates:\n                alloc_request_objs = random.sample(",
      "            if self._limit > 1:\n                alloc_request_objs = random.sample(",
      'R20.2'),
    M('c20-limit-before-exclude', O + 'allocation_candidate.py',
      "        alloc_request_objs, summary_objs = rw_ctx.exclude_nested_providers(\n"
      "            alloc_request_objs, summary_objs)\n\n"
      "        return rw_ctx.limit_results(alloc_request_objs, summary_objs)",
      "        alloc_request_objs, summary_objs = rw_ctx.limit_results(\n"
      "            alloc_request_objs, summary_objs)\n\n"
      "        return rw_ctx.exclude_nested_providers(alloc_request_objs, summary_objs)",
      'R20.3'),
    M('c20-dup-after-limit', RCX,
      "        return alloc_request_objs, summary_objs\n\n    def copy_arr_if_needed",
      "        alloc_request_objs.extend(alloc_request_objs[:1])\n"
      "        return alloc_request_objs, summary_objs\n\n    def copy_arr_if_needed",
      'R20.1'),
    M('c20-summaries-break', RCX,
      "                if rp_root_uuid not in alloc_req_root_uuids:\n                    continue\n",
      "                if rp_root_uuid not in alloc_req_root_uuids:\n                    break\n",
      'R20.4'),
    M('c20-summaries-from-unlimited', RCX,
      "            if self._ctx.config.placement.randomize_allocation_candidates:\n"
      "                alloc_request_objs = random.sample(\n"
      "                    alloc_request_objs, self._limit)\n"
      "            else:\n"
      "                alloc_request_objs = alloc_request_objs[:self._limit]\n"
      "            # Limit summaries to only those mentioned in the allocation reqs.\n"
      "            kept_summary_objs = []\n"
      "            alloc_req_root_uuids = set()\n",
      "            kept_summary_objs = []\n"
      "            alloc_req_root_uuids = set()\n"
      "            if self._ctx.config.placement.randomize_allocation_candidates:\n"
      "                alloc_request_objs = random.sample(\n"
      "                    alloc_request_objs, self._limit)\n"
      "            else:\n"
      "                alloc_request_objs = alloc_request_objs[:self._limit]\n",
      None),
    M('c20-roots-first-request-only', RCX,
      "            for aro in alloc_request_objs:\n                for arr in aro.resource_requests:\n                    alloc_req_root_uuids.add(",
      "            for aro in alloc_request_objs:\n                for arr in aro.resource_requests[:1]:\n                    alloc_req_root_uuids.add(",
      'R20.4'),
    B('c20-benign-guard-order', RCX,
      "        if self._limit and self._limit < len(alloc_request_objs):",
      "        if self._limit and len(alloc_request_objs) > self._limit:"),
]
for _c in CONTROLS['C20']:
    if _c['id'] == 'c20-summaries-from-unlimited':
        _c['benign'] = True
        _c.pop('expect', None)

CONTROLS['C17'] = [
    M('c17-retry-inside-writer', OA,
      "@oslo_db_api.wrap_db_retry(max_retries=5, retry_on_deadlock=True)\n"
      "@db_api.placement_context_manager.writer\ndef _set_allocations(context, allocs):",
      "@db_api.placement_context_manager.writer\n"
      "@oslo_db_api.wrap_db_retry(max_retries=5, retry_on_deadlock=True)\n"
      "def _set_allocations(context, allocs):", 'R17.1'),
    M('c17-no-deadlock-retry', OA,
      "@oslo_db_api.wrap_db_retry(max_retries=5, retry_on_deadlock=True)\n"
      "@db_api.placement_context_manager.writer\ndef _set_allocations(context, allocs):",
      "@oslo_db_api.wrap_db_retry(max_retries=5, retry_on_deadlock=False)\n"
      "@db_api.placement_context_manager.writer\ndef _set_allocations(context, allocs):",
      'R17.1'),
    M('c17-sync-not-retried', OT,
      "@oslo_db_api.wrap_db_retry(max_retries=5, retry_on_deadlock=True)\n"
      "# Bug #1760322: If the caller raises an exception, we don't want the trait\n",
      "# Bug #1760322: If the caller raises an exception, we don't want the trait\n",
      'R17.1'),
    M('c17-aggregate-checker-wrong', RP,
      "    exception_checker=lambda exc: isinstance(exc, db_exc.DBDuplicateEntry))",
      "    exception_checker=lambda exc: isinstance(exc, db_exc.DBDeadlock))",
      'R17.1'),
    M('c17-ensure-aggregate-swallows', RP,
      "        with excutils.save_and_reraise_exception():\n"
      "            LOG.debug(\"_ensure_provider() failed to create new aggregate %s. \"",
      "        if True:\n"
      "            LOG.debug(\"_ensure_provider() failed to create new aggregate %s. \"",
      'R17.'),
    M('c17-retry-extra-function', RP,
      "@db_api.placement_context_manager.writer\ndef _set_inventory(context, rp, inv_list):",
      "@oslo_db_api.wrap_db_retry(max_retries=5, retry_on_deadlock=True)\n"
      "@db_api.placement_context_manager.writer\ndef _set_inventory(context, rp, inv_list):",
      'R17.1'),
    M('c17-swallow-in-closure', HA,
      "        except Exception:\n            with excutils.save_and_reraise_exception():\n"
      "                if created_new_consumer:\n                    delete_consumers([consumer])",
      "        except Exception:\n            if created_new_consumer:\n"
      "                delete_consumers([consumer])", 'R17.2'),
    M('c17-db-error-dropped', RP,
      "        except sqla_exc.IntegrityError:\n"
      "            # NOTE(jaypipes): Another thread snuck in and deleted the parent\n"
      "            # for this resource provider in between the above check for a valid\n"
      "            # parent provider and here...\n"
      "            raise exception.ObjectActionError(\n"
      "                action='update',\n"
      "                reason='parent provider UUID does not exist.')",
      "        except sqla_exc.IntegrityError:\n"
      "            LOG.warning('parent vanished')", 'R17.'),
    M('c17-faultwrapper-not-innermost', 'placement/deploy.py',
      "    for middleware in (fault_middleware,\n                       context_middleware,",
      "    for middleware in (context_middleware,\n                       fault_middleware,",
      'R17.3'),
    M('c17-faultwrapper-narrow', 'placement/fault_wrap.py',
      "        except Exception as unexpected_exception:",
      "        except ValueError as unexpected_exception:", 'R17.3'),
    M('c17-faultwrapper-plain-text', 'placement/fault_wrap.py',
      "            formatted_exception.json_formatter = util.json_error_formatter\n",
      "", 'R17.3'),
    reuse('C04', 'c04-raw-write-in-handler', 'c17-unscoped-write', 'R17.4'),
    reuse('C04', 'c04-swallow-in-object-layer', 'c17-swallow-in-tx', 'R17.4'),
    reuse('C04', 'c04-benign-rename-closure', 'c17-benign-rename', None),
]

OAC = O + 'allocation_candidate.py'
HAC = H + 'allocation_candidate.py'
CONTROLS['C02'] = [
    M('c02-sql-max-unit-strict', RCX,
      "        inv_tbl.c.max_unit >= amount,", "        inv_tbl.c.max_unit > amount,",
      'R2.1'),
    M('c02-sql-drop-step', RCX,
      "        amount % inv_tbl.c.step_size == 0,\n", "", 'R2.1'),
    M('c02-sql-capacity-lt', RCX,
      "        sql.func.coalesce(usage.c.used, 0) + amount <= (",
      "        sql.func.coalesce(usage.c.used, 0) + amount < (", 'R2.1'),
    M('c02-sql-ignores-reserved', RCX,
      "            (inv_tbl.c.total - inv_tbl.c.reserved) *\n            inv_tbl.c.allocation_ratio),",
      "            inv_tbl.c.total *\n            inv_tbl.c.allocation_ratio),", 'R2.1'),
    M('c02-clause-not-applied-for-tree', RCX,
      "        where_conds = sa.and_(\n            rpt.c.root_provider_id == tree_root_id,\n            where_conds)",
      "        where_conds = rpt.c.root_provider_id == tree_root_id", 'R2.1'),
    M('c02-postmerge-no-max-unit', RCX,
      "            if arr.amount > psum_res.max_unit:", "            if arr.amount > psum_res.capacity:",
      'R2.1'),
    M('c02-postmerge-ge', RCX,
      "            if psum_res.used + arr.amount > psum_res.capacity:",
      "            if psum_res.used + arr.amount > psum_res.capacity + 1:", 'R2.1'),
    M('c02-merge-skips-filter', OAC,
      "            if rw_ctx.exceeds_capacity(areq):\n                continue\n", "",
      'R2.1'),
    M('c02-summary-capacity-no-ratio', OAC,
      "        cap = int((usage.total - usage.reserved) * allocation_ratio)",
      "        cap = int(usage.total - usage.reserved)", 'R2.1'),
    M('c02-reintroduce-F1', RCX,
      "        if arr.resource_class in self.multi_group_rcs:\n            return copy.copy(arr)\n        return arr",
      "        if self.group_policy != 'none':\n            return arr\n"
      "        if arr.resource_class in self.multi_group_rcs:\n            return copy.copy(arr)\n        return arr",
      'R2.2'),
    M('c02-never-copy', RCX,
      "        if arr.resource_class in self.multi_group_rcs:\n            return copy.copy(arr)\n        return arr",
      "        return arr", 'R2.2'),
    M('c02-second-mutation-site', OAC,
      "            areq = _consolidate_allocation_requests(areq_list, rw_ctx)\n",
      "            areq = _consolidate_allocation_requests(areq_list, rw_ctx)\n"
      "            for arr in areq.resource_requests:\n                arr.amount = int(arr.amount)\n",
      'R2.2'),
    M('c02-multi-rcs-after-merge', OAC,
      "            # Which resource classes are requested in more than one group?\n"
      "            for rc in rg_ctx.rcs:\n                if rc in seen_rcs:\n"
      "                    rw_ctx.multi_group_rcs.add(rc)\n                else:\n"
      "                    seen_rcs.add(rc)\n",
      "            for rc in rg_ctx.rcs:\n                if rc in seen_rcs and suffix:\n"
      "                    rw_ctx.multi_group_rcs.add(rc)\n                else:\n"
      "                    seen_rcs.add(rc)\n", 'R2.2'),
    M('c02-mappings-at-1.33', HAC,
      "        if want_version.matches((1, 34)):\n            result['mappings'] = ar.mappings",
      "        if want_version.matches((1, 33)):\n            result['mappings'] = ar.mappings",
      'R2.3'),
    M('c02-dict-form-at-1.11', HAC,
      "    if want_version.matches((1, 12)):\n        a_reqs = _transform_allocation_requests_dict(",
      "    if want_version.matches((1, 11)):\n        a_reqs = _transform_allocation_requests_dict(",
      'R2.3'),
    M('c02-key-renamed', HAC,
      "        result = dict(allocations=rp_resources)", "        result = dict(allocation=rp_resources)",
      'R2.3'),
    B('c02-benign-window-overlap', HA,
      "@microversion.version_handler('1.28', '1.33')", "@microversion.version_handler('1.28', '1.34')"),
    M('c02-put-schema-window-shift', HA,
      "@microversion.version_handler('1.34', '1.37')", "@microversion.version_handler('1.35', '1.37')",
      'R2.3'),
    B('c02-benign-clause-order', RCX,
      "        inv_tbl.c.min_unit <= amount,\n        inv_tbl.c.max_unit >= amount,",
      "        amount <= inv_tbl.c.max_unit,\n        amount >= inv_tbl.c.min_unit,"),
    B('c02-benign-copy-first', RCX,
      "        if arr.resource_class in self.multi_group_rcs:\n            return copy.copy(arr)\n        return arr",
      "        if arr.resource_class not in self.multi_group_rcs:\n            return arr\n        return copy.copy(arr)"),
]

CONTROLS['C02'] += [
    M('c02-seen-replaced-not-accumulated', OAC,
      "            for rc in rg_ctx.rcs:\n                if rc in seen_rcs:\n"
      "                    rw_ctx.multi_group_rcs.add(rc)\n                else:\n"
      "                    seen_rcs.add(rc)\n",
      "            rw_ctx.multi_group_rcs |= seen_rcs & rg_ctx.rcs\n"
      "            seen_rcs = rg_ctx.rcs\n", 'R2.2'),
    B('c02-benign-setop-bookkeeping', OAC,
      "            for rc in rg_ctx.rcs:\n                if rc in seen_rcs:\n"
      "                    rw_ctx.multi_group_rcs.add(rc)\n                else:\n"
      "                    seen_rcs.add(rc)\n",
      "            rw_ctx.multi_group_rcs |= seen_rcs & rg_ctx.rcs\n"
      "            seen_rcs |= rg_ctx.rcs\n"),
]

CONTROLS['C13'] = [
    M('c13-typo-filter-key', HRP,
      "        filters['member_of'], filters['forbidden_aggs'] = (",
      "        filters['member_of'], filters['forbidden_agg'] = (", 'R13.1'),
    M('c13-pair-swapped', HRP,
      "        filters['required_traits'], filters['forbidden_traits'] = (",
      "        filters['forbidden_traits'], filters['required_traits'] = (", 'R13.1'),
    M('c13-param-not-read', HRP,
      "    qpkeys = ('uuid', 'name', 'in_tree', 'resources')",
      "    qpkeys = ('uuid', 'name', 'resources')", 'R13.1'),
    M('c13-forbidden-traits-not-negated', RP,
      "            query = query.where(~rp.c.id.in_(trait_rps))",
      "            query = query.where(rp.c.id.in_(trait_rps))", 'R13.2'),
    M('c13-name-compares-uuid', RP,
      "        query = query.where(rp.c.name == name)", "        query = query.where(rp.c.uuid == name)",
      'R13.2'),
    M('c13-in-tree-uses-id', RP,
      "        query = query.where(rp.c.root_provider_id == root_id)",
      "        query = query.where(rp.c.id == root_id)", 'R13.2'),
    M('c13-member-of-empty-ignored', RP,
      "        if not rps_in_aggs:\n            return []\n        query = query.where(rp.c.id.in_(rps_in_aggs))",
      "        if rps_in_aggs:\n            query = query.where(rp.c.id.in_(rps_in_aggs))",
      'R13.2'),
    M('c13-forbidden-aggs-use-member-of', RP,
      "        rps_bad_aggs = res_ctx.provider_ids_matching_aggregates(\n            context, [forbidden_aggs])",
      "        rps_bad_aggs = res_ctx.provider_ids_matching_aggregates(\n            context, member_of)",
      'R13.2'),
    M('c13-resources-first-only', RP,
      "    for rc_name, amount in resources.items():\n        rc_id = context.rc_cache.id_from_string(rc_name)",
      "    for rc_name, amount in list(resources.items())[:1]:\n        rc_id = context.rc_cache.id_from_string(rc_name)",
      'R13.2'),
    M('c13-required-traits-skip', RP,
      "        if not rps_with_matching_traits:\n            return []\n", "", 'R13.2'),
    M('c13-filter-resets-query', RP,
      "        query = query.where(rp.c.uuid == uuid)",
      "        query = sa.select(rp.c.id).where(rp.c.uuid == uuid)", 'R13.2'),
    M('c13-trait-notfound-500', HRP,
      "    except exception.TraitNotFound as exc:\n        raise webob.exc.HTTPBadRequest(\n"
      "            'Invalid trait(s) in \"required\" parameter: %(error)s' %\n            {'error': exc})\n",
      "", 'R13.4'),
    reuse('C02', 'c02-sql-max-unit-strict', 'c13-capacity-clause', 'R13.3'),
    B('c13-benign-order', RP,
      "    if name:\n        query = query.where(rp.c.name == name)\n    if uuid:\n        query = query.where(rp.c.uuid == uuid)\n",
      "    if uuid:\n        query = query.where(rp.c.uuid == uuid)\n    if name:\n        query = query.where(rp.c.name == name)\n"),
]

HI = H + 'inventory.py'
CONTROLS['C15'] = [
    M('c15-unmapped-invalid-inventory', HA,
      "    except exception.InvalidInventory as exc:\n        raise webob.exc.HTTPConflict(\n"
      "            'Unable to allocate inventory: %(error)s' % {'error': exc})\n"
      "    except exception.ConcurrentUpdateDetected as exc:\n        raise webob.exc.HTTPConflict(\n"
      "            'Inventory and/or allocations changed while attempting to '\n"
      "            'allocate: %(error)s' % {'error': exc},\n"
      "            comment=errors.CONCURRENT_UPDATE)\n\n    req.response.status = 204\n"
      "    req.response.content_type = None\n    return req.response\n\n\n@wsgi_wrapper.PlacementWsgify\n@microversion.version_handler('1.0', '1.7')",
      "    except exception.ConcurrentUpdateDetected as exc:\n        raise webob.exc.HTTPConflict(\n"
      "            'Inventory and/or allocations changed while attempting to '\n"
      "            'allocate: %(error)s' % {'error': exc},\n"
      "            comment=errors.CONCURRENT_UPDATE)\n\n    req.response.status = 204\n"
      "    req.response.content_type = None\n    return req.response\n\n\n@wsgi_wrapper.PlacementWsgify\n@microversion.version_handler('1.0', '1.7')",
      'R15.1'),
    M('c15-inuse-escapes', HI,
      "    except (exception.ConcurrentUpdateDetected,\n            exception.InventoryInUse) as exc:",
      "    except exception.ConcurrentUpdateDetected as exc:", 'R15.1'),
    M('c15-new-valueerror', H + 'usage.py',
      "    usage = usage_obj.get_all_by_resource_provider_uuid(context, uuid)\n",
      "    usage = usage_obj.get_all_by_resource_provider_uuid(context, uuid)\n"
      "    if not usage:\n        raise ValueError('no usage')\n", 'R15.1'),
    M('c15-get-before-validate', H + 'trait.py',
      "    filters = {}\n\n    util.validate_query_params(req, schema.LIST_TRAIT_SCHEMA)\n\n    if 'name' in req.GET:",
      "    filters = {}\n    wants_name = 'name' in req.GET\n\n    util.validate_query_params(req, schema.LIST_TRAIT_SCHEMA)\n\n    if wants_name:",
      'R15.5'),
    M('c15-reintroduce-F7', H + 'usage.py',
      "    try:\n        project_id = req.GET.get('project_id')\n"
      "        user_id = req.GET.get('user_id')\n"
      "        consumer_type = req.GET.get('consumer_type')\n"
      "    except UnicodeDecodeError:",
      "    project_id = req.GET.get('project_id')\n    try:\n"
      "        user_id = req.GET.get('user_id')\n"
      "        consumer_type = req.GET.get('consumer_type')\n"
      "    except UnicodeDecodeError:", 'R15.5'),
    M('c15-normalizer-before-validate', HRP,
      "    util.validate_query_params(req, schema)\n\n    filters = {}\n",
      "    filters = {}\n    if 'required' in req.GET:\n"
      "        util.normalize_traits_qs_params(req)\n"
      "    util.validate_query_params(req, schema)\n", 'R15.5'),
    M('c15-unguarded-int-amount', 'placement/util.py',
      "        try:\n            amount = int(amount)\n        except ValueError:\n"
      "            msg = ('Requested resource %(resource_name)s expected positive '\n"
      "                   'integer amount. Got: %(amount)s.')\n"
      "            msg = msg % {\n                'resource_name': rc_name,\n"
      "                'amount': amount,\n            }\n"
      "            raise webob.exc.HTTPBadRequest(msg)\n",
      "        amount = int(amount)\n", 'R15.2'),
    M('c15-reintroduce-F8', 'placement/lib.py',
      "            first_limit = limit[0]\n"
      "            try:\n                limit = int(first_limit)\n"
      "                if limit < 1:\n                    raise ValueError()\n"
      "            except ValueError:\n"
      "                raise webob.exc.HTTPBadRequest(\n"
      "                    \"Invalid query string parameters: Expected 'limit' \"\n"
      "                    \"parameter to be a positive integer. Got: %s\" %\n"
      "                    first_limit)\n",
      "            limit = int(limit[0])\n", 'R15.2'),
    M('c15-reintroduce-F15', 'placement/lib.py',
      "            first_limit = limit[0]\n"
      "            try:\n                limit = int(first_limit)\n"
      "                if limit < 1:\n                    raise ValueError()\n"
      "            except ValueError:\n"
      "                raise webob.exc.HTTPBadRequest(\n"
      "                    \"Invalid query string parameters: Expected 'limit' \"\n"
      "                    \"parameter to be a positive integer. Got: %s\" %\n"
      "                    first_limit)\n",
      "            try:\n                limit = int(limit[0])\n"
      "                if limit < 1:\n                    raise ValueError()\n"
      "            except ValueError:\n"
      "                raise webob.exc.HTTPBadRequest(\n"
      "                    \"Invalid query string parameters: Expected 'limit' \"\n"
      "                    \"parameter to be a positive integer. Got: %s\" % limit[0])\n",
      'R15.13'),
    M('c15-reintroduce-F10', HI,
      "        inventory.capacity\n    except (ValueError, TypeError, OverflowError) as exc:",
      "    except (ValueError, TypeError) as exc:", 'R15.2'),
    M('c15-F10-overflow-not-caught', HI,
      "    except (ValueError, TypeError, OverflowError) as exc:",
      "    except (ValueError, TypeError) as exc:", 'R15.2'),
    M('c15-uuid-unchecked', HA,
      "    if not uuidutils.is_uuid_like(consumer_uuid):\n"
      "        raise webob.exc.HTTPBadRequest(\n"
      "            'Malformed consumer_uuid: %(consumer_uuid)s' %\n"
      "            {'consumer_uuid': consumer_uuid})\n", "", 'R15.2'),
    M('c15-split-unguarded', H + 'trait.py',
      "    try:\n        op, value = qs.split(':', 1)\n    except ValueError:\n"
      "        msg = ('Badly formatted name parameter. Expected name query string '\n"
      "               'parameter in form: '\n"
      "               '?name=[in|startswith]:[name1,name2|prefix]. Got: \"%s\"')\n"
      "        msg = msg % qs\n        raise webob.exc.HTTPBadRequest(msg)\n",
      "    op, value = qs.split(':', 1)\n", 'R15.2'),
    M('c15-handler-not-wsgified', H + 'usage.py',
      "@wsgi_wrapper.PlacementWsgify\n@util.check_accept('application/json')\ndef list_usages(req):",
      "@util.check_accept('application/json')\n@wsgi_wrapper.PlacementWsgify\ndef list_usages(req):",
      'R15.3'),
    M('c15-404-without-formatter', 'placement/handler.py',
      "    if result is None:\n        raise webob.exc.HTTPNotFound(\n            json_formatter=util.json_error_formatter)",
      "    if result is None:\n        raise webob.exc.HTTPNotFound()", 'R15.3'),
    M('c15-code-from-1.24', 'placement/util.py',
      "ERROR_CODE_MICROVERSION = (1, 23)", "ERROR_CODE_MICROVERSION = (1, 24)",
      'R15.3'),
    M('c15-no-request-id', 'placement/util.py',
      "    if request_id.ENV_REQUEST_ID in environ:\n        error_dict['request_id'] = environ[request_id.ENV_REQUEST_ID]\n",
      "", 'R15.3'),
    M('c15-write-before-validation', HRP,
      "    allow_reparenting = want_version.matches((1, 37))\n\n    data = util.extract_json(req.body, schema)\n",
      "    allow_reparenting = want_version.matches((1, 37))\n    resource_provider.save()\n\n    data = util.extract_json(req.body, schema)\n",
      'R15.4'),
    M('c15-inventory-unbounded', 'placement/schemas/inventory.py',
      '        "total": {\n            "type": "integer",\n            "maximum": db_const.MAX_INT,\n',
      '        "total": {\n            "type": "integer",\n', 'R15.6'),
    M('c15-404-to-500', 'placement/handler.py',
      "        except exception.NotFound as exc:\n            raise webob.exc.HTTPNotFound(\n                exc, json_formatter=util.json_error_formatter)\n",
      "", 'R15.1'),
    M('c15-reintroduce-F12', 'placement/schemas/inventory.py',
      "                common.RC_PATTERN: PUT_INVENTORY_RECORD_SCHEMA,\n            },\n            \"additionalProperties\": False\n",
      "                common.RC_PATTERN: PUT_INVENTORY_RECORD_SCHEMA,\n            }\n", 'R15.8'),
    M('c15-open-resources-object', 'placement/schemas/allocation.py',
      '                                    "minimum": 1,\n                                }\n                            },\n                            "additionalProperties": False\n',
      '                                    "minimum": 1,\n                                }\n                            }\n', 'R15.8'),
    M('c15-reintroduce-F13', 'placement/util.py',
      "    except (ValueError, RecursionError) as exc:", "    except ValueError as exc:", 'R15.2'),
    B('c15-benign-catch-exception', 'placement/util.py',
      "    except (ValueError, RecursionError) as exc:", "    except (ValueError, RuntimeError) as exc:"),
    M('c15-validator-under-data-condition', 'placement/lib.py',
      "            cls._check_actual_suffix(subtree_suffixes, by_suffix)\n",
      "            if resourceless_suffixes:\n                cls._check_actual_suffix(subtree_suffixes, by_suffix)\n",
      'R15.9'),
    B('c15-benign-vacuous-guard', 'placement/lib.py',
      "            cls._check_resourceless_suffix(\n                subtree_suffixes, resourceless_suffixes)\n",
      "            if resourceless_suffixes:\n                cls._check_resourceless_suffix(\n                    subtree_suffixes, resourceless_suffixes)\n"),
    B('c15-benign-vacuous-guard-2', 'placement/lib.py',
      "            cls._check_actual_suffix(subtree_suffixes, by_suffix)\n",
      "            if subtree_suffixes:\n                cls._check_actual_suffix(subtree_suffixes, by_suffix)\n"),
    M('c15-validator-verdict-discarded', H + 'trait.py',
      "    util.validate_query_params(req, schema.LIST_TRAIT_SCHEMA)\n",
      "    try:\n        util.validate_query_params(req, schema.LIST_TRAIT_SCHEMA)\n    except webob.exc.HTTPBadRequest:\n        pass\n",
      'R15.9'),
    M('c15-forbidden-check-under-data', 'placement/lib.py',
      "        if allow_forbidden:\n            cls._check_forbidden(by_suffix)\n",
      "        if allow_forbidden and len(by_suffix) > 1:\n            cls._check_forbidden(by_suffix)\n",
      'R15.9'),
    B('c15-benign-rename', 'placement/util.py',
      "        try:\n            amount = int(amount)\n        except ValueError:",
      "        try:\n            amount = int(amount.strip())\n        except (ValueError, TypeError):"),
]

MV = 'placement/microversion.py'
CONTROLS['C14'] = [
    M('c14-reshaper-from-1.29', H + 'reshaper.py',
      "@microversion.version_handler('1.30')", "@microversion.version_handler('1.29')",
      'R14.'),
    M('c14-swap-elif-arms', HRP,
      "    elif want_version.matches((1, 14)):\n        schema = rp_schema.GET_RPS_SCHEMA_1_14\n"
      "    elif want_version.matches((1, 4)):\n        schema = rp_schema.GET_RPS_SCHEMA_1_4\n",
      "    elif want_version.matches((1, 4)):\n        schema = rp_schema.GET_RPS_SCHEMA_1_4\n"
      "    elif want_version.matches((1, 14)):\n        schema = rp_schema.GET_RPS_SCHEMA_1_14\n",
      'R14.2'),
    M('c14-consumer-generation-gate-1.27', HU,
      "    requires_consumer_generation = want_version.matches((1, 28))",
      "    requires_consumer_generation = want_version.matches((1, 27))", 'R14.4'),
    M('c14-drop-latest-version', MV,
      "    '1.39',  # Adds support for the ``in:`` syntax in the ``required`` query\n"
      "             # parameter in the ``GET /resource_providers`` API as well as to\n"
      "             # the ``required`` and ``requiredN`` query params of the\n"
      "             # ``GET /allocation_candidates`` API.\n", "", 'R14.1'),
    M('c14-schema-list-misordered', HAC,
      "    (1, 36), (1, 35), (1, 33), (1, 31), (1, 25), (1, 21), (1, 17), (1, 16)",
      "    (1, 35), (1, 36), (1, 33), (1, 31), (1, 25), (1, 21), (1, 17), (1, 16)",
      'R14.'),
    M('c14-post-alloc-gate-inverted', HA,
      "    if want_version.matches((1, 38)):\n        want_schema = schema.POST_ALLOCATIONS_V1_38\n    data = util.extract_json(req.body, want_schema)",
      "    if not want_version.matches((1, 38)):\n        want_schema = schema.POST_ALLOCATIONS_V1_38\n    data = util.extract_json(req.body, want_schema)",
      'R14.'),
    M('c14-post-alloc-overriding-order', HA,
      "    if want_version.matches((1, 28)):\n        want_schema = schema.POST_ALLOCATIONS_V1_28\n"
      "    if want_version.matches((1, 34)):\n        want_schema = schema.POST_ALLOCATIONS_V1_34\n",
      "    if want_version.matches((1, 34)):\n        want_schema = schema.POST_ALLOCATIONS_V1_34\n"
      "    if want_version.matches((1, 28)):\n        want_schema = schema.POST_ALLOCATIONS_V1_28\n",
      'R14.2'),
    M('c14-window-gap', HA,
      "@microversion.version_handler('1.8', '1.11')", "@microversion.version_handler('1.8', '1.10')",
      'R14.1'),
    M('c14-window-wrong-schema', HA,
      "    return _set_allocations_for_consumer(req, schema.ALLOCATION_SCHEMA_V1_34)",
      "    return _set_allocations_for_consumer(req, schema.ALLOCATION_SCHEMA_V1_28)",
      'R14.2'),
    M('c14-param-accepted-early', 'placement/schemas/resource_provider.py',
      'GET_RPS_SCHEMA_1_3[\'properties\'][\'member_of\'] = {\n    "type": "string"\n}\n',
      'GET_RPS_SCHEMA_1_3[\'properties\'][\'member_of\'] = {\n    "type": "string"\n}\n'
      'GET_RPS_SCHEMA_1_3[\'properties\'][\'resources\'] = {"type": "string"}\n',
      'R14.3'),
    M('c14-param-dropped-later', 'placement/schemas/allocation_candidate.py',
      'GET_SCHEMA_1_36 = copy.deepcopy(GET_SCHEMA_1_35)\n',
      'GET_SCHEMA_1_36 = copy.deepcopy(GET_SCHEMA_1_35)\ndel GET_SCHEMA_1_36["properties"]["root_required"]\n',
      None),
    M('c14-middleware-other-versions', 'placement/deploy.py',
      "        application, microversion.SERVICE_TYPE, microversion.VERSIONS,",
      "        application, microversion.SERVICE_TYPE, microversion.VERSIONS[:-1],",
      'R14.5'),
    M('c14-links-gate-moved', HRP,
      "    if want_version >= (1, 11):\n        rel_types.append('allocations')",
      "    if want_version >= (1, 12):\n        rel_types.append('allocations')", 'R14.4'),
    M('c14-last-modified-inverted', H + 'root.py',
      "    if want_version.matches((1, 15)):", "    if not want_version.matches((1, 15)):",
      'R14.6'),
    M('c14-delete-inventories-404', HI,
      "@microversion.version_handler('1.5', status_code=405)", "@microversion.version_handler('1.5')",
      'R14.4'),
    M('c14-history-missing-section', 'placement/rest_api_version_history.rst',
      "1.23 - Include 'code' attribute in JSON error responses\n~~~~~",
      "Include 'code' attribute in JSON error responses\n~~~~~", 'R14.1'),
    B('c14-benign-gate-via-constant', HU,
      "    requires_consumer_type = want_version.matches((1, 38))",
      "    requires_consumer_type = want_version.matches(min_version=(1, 38))"),
]
for _c in CONTROLS['C14']:
    if _c['id'] == 'c14-param-dropped-later':
        # root_required documented from 1.35: silently dropping it at 1.36
        # keeps "accepted at 1.35, not at 1.34" true; it is caught only by
        # the subset/monotonicity obligation
        _c['expect'] = 'R14.2'

CONTROLS['C14'] += [
    M('c14-swap-gated-keys', HA,
      "        show_consumer_gen = want_version.matches((1, 28))\n        if show_consumer_gen:\n            result['consumer_generation'] = consumer.generation\n        show_consumer_type = want_version.matches((1, 38))",
      "        show_consumer_gen = want_version.matches((1, 38))\n        if show_consumer_gen:\n            result['consumer_generation'] = consumer.generation\n        show_consumer_type = want_version.matches((1, 28))",
      'R14.6'),
    M('c14-traits-in-summaries-ungated', HAC,
      "        if include_traits:\n            ret[ps.resource_provider.uuid]['traits'] = ps.traits",
      "        ret[ps.resource_provider.uuid]['traits'] = ps.traits", 'R14.6'),
]

UT = 'placement/util.py'
CONTROLS['C13'] += [
    M('c13-strip-wrong-offset', UT,
      "        forbidden = set(value[4:].split(','))",
      "        forbidden = set(value[3:].split(','))", 'R13.6'),
    M('c13-not-in-feeds-required', UT,
      "    if value.startswith('!in:'):\n        forbidden = set(value[4:].split(','))",
      "    if value.startswith('!in:'):\n        required = set(value[4:].split(','))",
      'R13.6'),
    M('c13-prefix-order', UT,
      "    if value.startswith('!in:'):\n        forbidden = set(value[4:].split(','))\n"
      "    elif value.startswith('!'):\n        forbidden = set([value[1:]])\n",
      "    if value.startswith('!'):\n        forbidden = set([value[1:]])\n"
      "    elif value.startswith('!in:'):\n        forbidden = set(value[4:].split(','))\n",
      'R13.6'),
    M('c13-member-of-last-only', UT,
      "        if required:\n            required_aggs.append(required)",
      "        if required:\n            required_aggs = [required]", 'R13.6'),
    M('c13-required-traits-replaced', UT,
      "        required_traits += rts\n", "        required_traits = rts\n", 'R13.6'),
    M('c13-join-on-wrong-column', RCX,
      "            rp_tbl.c.id == rpa_tbl.c.resource_provider_id,\n            rpa_tbl.c.aggregate_id.in_(agg_ids))",
      "            rp_tbl.c.id == rpa_tbl.c.aggregate_id,\n            rpa_tbl.c.aggregate_id.in_(agg_ids))",
      'R13.5'),
    M('c13-any-trait-no-filter', RCX,
      "    sel = sel.where(rptt.c.trait_id.in_(traits))\n", "", 'R13.5'),
]
CONTROLS['C09'] += [
    M('c09-subtree-children-only', RP,
      "            subtree.extend(\n                child_rp.get_subtree(context, rp_uuid_to_child_rps))",
      "            subtree.append(child_rp)", 'R9.7'),
    M('c09-subtree-without-self', RP,
      "        subtree = [self]\n", "        subtree = []\n", 'R9.7'),
    M('c09-root-join-on-parent', RCX,
      "    me_to_root = sa.join(me, root, me.c.root_provider_id == root.c.id)",
      "    me_to_root = sa.join(me, root, me.c.parent_provider_id == root.c.id)",
      'R9.6'),
]
CONTROLS['C12'] += [
    M('c12-update-needs-both', HU,
      "        if (project.external_id != consumer.project.external_id or\n"
      "                user.external_id != consumer.user.external_id):",
      "        if (project.external_id != consumer.project.external_id and\n"
      "                user.external_id != consumer.user.external_id):", 'R12.7'),
    M('c12-type-update-dropped', HU,
      "        if consumer_type_id and consumer_type_id != consumer.consumer_type_id:\n"
      "            LOG.debug(\"Supplied consumer type for consumer %s was \"\n"
      "                      \"different than existing record. Updating \"\n"
      "                      \"consumer record.\", consumer.uuid)\n"
      "            consumer.consumer_type_id = consumer_type_id\n            consumer.update()\n",
      "", 'R12.7'),
    M('c12-cleanup-join-dropped-null', O + 'consumer.py',
      "        CONSUMER_TBL.c.uuid == _ALLOC_TBL.c.consumer_id)\n    subq = sa.select(CONSUMER_TBL.c.uuid).select_from(cons_to_allocs_join)",
      "        CONSUMER_TBL.c.id == _ALLOC_TBL.c.id)\n    subq = sa.select(CONSUMER_TBL.c.uuid).select_from(cons_to_allocs_join)",
      'R12.'),
]
CONTROLS['C05'] += [
    reuse('C06', 'c06-drop-generation-conjunct', 'c05-x', 'R5.', ) if False else
    M('c05-reshape-uses-cached-object', O + 'reshaper.py',
      "        affected_providers[rp.uuid] = rp\n",
      "        rp = affected_providers.setdefault(rp.uuid, rp)\n", 'R5.4'),
    M('c05-refresh-after-save', RP,
      "    def set_traits(self, traits):",
      "    def refresh(self):\n        self._from_db_object(\n            self._context, self, _get_provider_by_uuid(self._context, self.uuid))\n\n"
      "    def set_traits(self, traits):", 'R5.4'),
]
CONTROLS['C06'] += [
    M('c06-update-refreshes-object', O + 'consumer.py',
      "            ctx.session.execute(upd_stmt)\n        _update_in_db(self._context)",
      "            ctx.session.execute(upd_stmt)\n            self._from_db_object(\n"
      "                ctx, self, _get_consumer_by_uuid(ctx, self.uuid))\n        _update_in_db(self._context)",
      'R6.6'),
    M('c06-generation-assigned-in-handler', HU,
      "            consumer.project = project\n            consumer.user = user\n",
      "            consumer.project = project\n            consumer.user = user\n"
      "            consumer.generation = consumer_obj.Consumer.get_by_uuid(\n"
      "                consumer._context, consumer.uuid).generation\n", 'R6.6'),
]
CONTROLS['C04'] += [
    M('c04-cleanup-delete-conditional', O + 'consumer.py',
      "    del_stmt = CONSUMER_TBL.delete().where(CONSUMER_TBL.c.id == consumer.id)",
      "    del_stmt = CONSUMER_TBL.delete().where(sa.and_(\n        CONSUMER_TBL.c.id == consumer.id,\n"
      "        CONSUMER_TBL.c.generation == consumer.generation))", 'R4.6'),
]

CONTROLS['C12'] += [
    M('c12-cleanup-bypassed-for-conflicts', HA,
      "            _update_consumers_and_create_allocations(context)\n        except Exception:\n"
      "            with excutils.save_and_reraise_exception():\n                delete_consumers(new_consumers_created)",
      "            _update_consumers_and_create_allocations(context)\n"
      "        except exception.ConcurrentUpdateDetected:\n            raise\n        except Exception:\n"
      "            with excutils.save_and_reraise_exception():\n                delete_consumers(new_consumers_created)",
      'R12.3'),
]
CONTROLS['C04'] += [
    reuse('C12', 'c12-cleanup-bypassed-for-conflicts', 'c04-cleanup-bypassed-for-conflicts', 'R4.3'),
]
CONTROLS['C05'] += [
    B('c05-benign-reraise-clause', HA,
      "            _update_consumers_and_create_allocations(context)\n        except Exception:\n"
      "            with excutils.save_and_reraise_exception():\n                delete_consumers(new_consumers_created)",
      "            _update_consumers_and_create_allocations(context)\n"
      "        except exception.ConcurrentUpdateDetected:\n"
      "            delete_consumers(new_consumers_created)\n            raise\n        except Exception:\n"
      "            with excutils.save_and_reraise_exception():\n                delete_consumers(new_consumers_created)"),
]
CONTROLS['C13'] += [
    M('c13-resources-intersection-restarts', RP,
      "    for rc_name, amount in resources.items():\n"
      "        rc_id = context.rc_cache.id_from_string(rc_name)\n"
      "        rps_with_resource = res_ctx.get_providers_with_resource(\n"
      "            context, rc_id, amount)\n"
      "        rps_with_resource = (rp[0] for rp in rps_with_resource)\n"
      "        query = query.where(rp.c.id.in_(rps_with_resource))\n",
      "    if resources:\n        acc = set()\n"
      "        for rc_name, amount in resources.items():\n"
      "            rc_id = context.rc_cache.id_from_string(rc_name)\n"
      "            ids = set(r[0] for r in res_ctx.get_providers_with_resource(\n"
      "                context, rc_id, amount))\n"
      "            if acc:\n                acc &= ids\n            else:\n                acc = ids\n"
      "        if not acc:\n            return []\n"
      "        query = query.where(rp.c.id.in_(acc))\n", 'R13.2'),
    B('c13-benign-resources-intersection', RP,
      "    for rc_name, amount in resources.items():\n"
      "        rc_id = context.rc_cache.id_from_string(rc_name)\n"
      "        rps_with_resource = res_ctx.get_providers_with_resource(\n"
      "            context, rc_id, amount)\n"
      "        rps_with_resource = (rp[0] for rp in rps_with_resource)\n"
      "        query = query.where(rp.c.id.in_(rps_with_resource))\n",
      "    if resources:\n        acc = None\n"
      "        for rc_name, amount in resources.items():\n"
      "            rc_id = context.rc_cache.id_from_string(rc_name)\n"
      "            ids = set(r[0] for r in res_ctx.get_providers_with_resource(\n"
      "                context, rc_id, amount))\n"
      "            if acc is not None:\n                acc &= ids\n            else:\n                acc = ids\n"
      "        if not acc:\n            return []\n"
      "        query = query.where(rp.c.id.in_(acc))\n"),
]
CONTROLS['C14'] += [
    M('c14-reparent-gate-same-tree-leak', RP,
      "                        my_ids.parent_id != parent_ids.id and\n",
      "                        my_ids.root_id != parent_ids.root_id and\n", 'R14.7'),
]

CONTROLS['C15'] += [
    M('c15-optional-key-subscripted', 'placement/schemas/trait.py',
      "SET_TRAITS_FOR_RP_SCHEMA['required'].append('resource_provider_generation')\n",
      "", 'R15.7'),
]
CONTROLS['C17'] += [
    M('c17-cleanup-does-not-reraise', HA,
      "        except Exception:\n            with excutils.save_and_reraise_exception():\n"
      "                if created_new_consumer:\n                    delete_consumers([consumer])",
      "        except Exception:\n            with excutils.save_and_reraise_exception(reraise=False):\n"
      "                if created_new_consumer:\n                    delete_consumers([consumer])",
      'R17.2'),
]
CONTROLS['C18'] += [
    M('c18-independent-writer', HU,
      "        cons_type = consumer_type_obj.ConsumerType(ctx, name=name)\n",
      "        cons_type = consumer_type_obj.ConsumerType(ctx, name=name)\n"
      "        from placement import db_api as _d\n"
      "        with _d.placement_context_manager.writer.independent.using(ctx):\n"
      "            pass\n", 'R18d'),
]
CONTROLS['C19'] += [
    M('c19-sync-flag-inverted', OT,
      "        if not _TRAITS_SYNCED:\n            _trait_sync(ctx)",
      "        if _TRAITS_SYNCED:\n            _trait_sync(ctx)", 'R19.6'),
    M('c19-sync-flag-before-sync', ORC,
      "            _resource_classes_sync(ctx)\n            _RESOURCE_CLASSES_SYNCED = True",
      "            _RESOURCE_CLASSES_SYNCED = True\n            _resource_classes_sync(ctx)", 'R19.6'),
]
CONTROLS['C20'] += [
    M('c20-hash-includes-amount-only', OAC,
      "        return hash((self.resource_provider.id,\n                     self.resource_class,\n                     self.amount))",
      "        return hash((self.resource_class,\n                     self.amount))", 'R20.5'),
    M('c20-eq-ignores-mappings', OAC,
      "        return (set(self.resource_requests) == set(other.resource_requests) and\n                self.mappings == other.mappings)",
      "        return set(self.resource_requests) == set(other.resource_requests)", 'R20.5'),
]

ORP = O + 'resource_provider.py'
CONTROLS['C17'] += [
    M('c17-seed-skip-clean-slate-for-new-consumer', OA,
      "    consumer_ids = set(alloc.consumer.uuid for alloc in allocs)\n    for consumer_id in consumer_ids:\n        _delete_allocations_for_consumer(context, consumer_id)\n",
      "    consumer_ids = set(alloc.consumer.uuid for alloc in allocs\n                       if alloc.consumer.generation)\n    for consumer_id in consumer_ids:\n        _delete_allocations_for_consumer(context, consumer_id)\n", 'R17.5'),
    reuse('C19', 'c19-sync-inserts-all', 'c17-sync-inserts-all', 'R17.5'),
    M('c17-aggregates-insert-all-provided', ORP,
      "    agg_uuids_to_add = provided_aggregates - set(existing_aggregates.values())\n",
      "    agg_uuids_to_add = provided_aggregates\n", 'R17.5'),
    M('c17-aggregates-work-after-bump', ORP,
      "    if increment_generation:\n        resource_provider.increment_generation()\n\n\ndef _add_traits_to_provider",
      "    if increment_generation:\n        resource_provider.increment_generation()\n"
      "    _get_aggregates_by_provider_id(context, rp_id)\n\n\ndef _add_traits_to_provider", 'R17.5'),
    B('c17-benign-aggregates-rename', ORP,
      "    agg_uuids_to_add = provided_aggregates - set(existing_aggregates.values())\n",
      "    known = set(existing_aggregates.values())\n    agg_uuids_to_add = provided_aggregates - known\n"),
]


def B2(id, edits):
    return {'id': id, 'edits': [{'file': f, 'old': o, 'new': n}
                                for f, o, n in edits], 'benign': True}


_SCH = ['ALLOCATION_SCHEMA', 'ALLOCATION_SCHEMA_V1_8', 'ALLOCATION_SCHEMA_V1_12',
        'ALLOCATION_SCHEMA_V1_28', 'ALLOCATION_SCHEMA_V1_34', 'ALLOCATION_SCHEMA_V1_38']
_DROP = (HA, "    context = req.environ['placement.context']\n    context.can(policies.ALLOC_UPDATE)\n    consumer_uuid = util.wsgi_path_item(req.environ, 'consumer_uuid')\n    if not uuidutils.is_uuid_like(consumer_uuid):",
         "    context = req.environ['placement.context']\n    consumer_uuid = util.wsgi_path_item(req.environ, 'consumer_uuid')\n    if not uuidutils.is_uuid_like(consumer_uuid):")


def _wrap(x):
    return (HA, "    return _set_allocations_for_consumer(req, schema.%s)\n" % x,
            "    req.environ['placement.context'].can(policies.ALLOC_UPDATE)\n"
            "    return _set_allocations_for_consumer(req, schema.%s)\n" % x)


CONTROLS['C16'] += [
    B2('c16-benign-can-moved-to-wrappers', [_DROP] + [_wrap(x) for x in _SCH]),
    M2('c16-seed-can-moved-one-wrapper-forgotten',
       [_DROP] + [_wrap(x) for x in _SCH if x != 'ALLOCATION_SCHEMA_V1_12'], 'R16.1'),
]
for _p in ('C02', 'C14', 'C15', 'C04', 'C05', 'C12'):
    CONTROLS[_p] += [B2('%s-benign-can-moved-to-wrappers' % _p.lower(),
                        [_DROP] + [_wrap(x) for x in _SCH])]

CONTROLS['C13'] += [
    M('c13-parser-returns-swapped', 'placement/util.py',
      "            raise webob.exc.HTTPBadRequest(msg)\n    return required, forbidden\n",
      "            raise webob.exc.HTTPBadRequest(msg)\n    return forbidden, required\n", 'R13.6'),
    M('c13-plural-returns-swapped', 'placement/util.py',
      "    return required_aggs, forbidden_aggs\n", "    return forbidden_aggs, required_aggs\n", 'R13.'),
]

RCX = O + 'research_context.py'
_LIM_OLD = ("        if self._limit and self._limit < len(alloc_request_objs):\n"
            "            if self._ctx.config.placement.randomize_allocation_candidates:\n"
            "                alloc_request_objs = random.sample(\n"
            "                    alloc_request_objs, self._limit)\n"
            "            else:\n"
            "                alloc_request_objs = alloc_request_objs[:self._limit]\n")
CONTROLS['C20'] += [
    B('c20-benign-alias-and-hoisted-flag', RCX, _LIM_OLD,
      "        randomize = self._ctx.config.placement.randomize_allocation_candidates\n"
      "        if self._limit and self._limit < len(alloc_request_objs):\n"
      "            limited_objs = alloc_request_objs[:self._limit]\n"
      "            if randomize:\n"
      "                limited_objs = random.sample(alloc_request_objs, self._limit)\n"
      "            alloc_request_objs = limited_objs\n"),
    M2('c20-seed-summaries-from-unsampled-list',
       [(RCX, _LIM_OLD,
         "        randomize = self._ctx.config.placement.randomize_allocation_candidates\n"
         "        if self._limit and self._limit < len(alloc_request_objs):\n"
         "            limited_objs = alloc_request_objs[:self._limit]\n"),
        (RCX, "            for aro in alloc_request_objs:\n                for arr in aro.resource_requests:\n"
              "                    alloc_req_root_uuids.add(\n                        arr.resource_provider.root_provider_uuid)\n",
              "            for aro in limited_objs:\n                for arr in aro.resource_requests:\n"
              "                    alloc_req_root_uuids.add(\n                        arr.resource_provider.root_provider_uuid)\n"
              "            if randomize:\n                limited_objs = random.sample(alloc_request_objs, self._limit)\n"
              "            alloc_request_objs = limited_objs\n")], 'R20.4'),
]

CONTROLS['C13'] += [
    M2('c13-seed-any-unknown-aggregate-empties-result',
       [(RCX, "    rp_tbl = sa.alias(_RP_TBL, name='rp')\n    join_chain = rp_tbl\n\n    for x, members in enumerate(member_of):\n",
         "    if len(agg_uuid_map) < len(agg_uuids):\n        return set()\n\n    rp_tbl = sa.alias(_RP_TBL, name='rp')\n    join_chain = rp_tbl\n\n    for x, members in enumerate(member_of):\n"),
        (RCX, "        agg_ids = [agg_uuid_map[member] for member in members\n                   if member in agg_uuid_map]\n        if not agg_ids:\n"
              "            # This member_of list contains only non-existent aggregate UUIDs\n"
              "            # and therefore we will always return 0 results, so short-circuit\n            return set()\n",
              "        agg_ids = [agg_uuid_map[member] for member in members]\n")], 'R13.7'),
    B('c13-benign-no-short-circuit-for-unknown-group', RCX,
      "        if not agg_ids:\n            # This member_of list contains only non-existent aggregate UUIDs\n"
      "            # and therefore we will always return 0 results, so short-circuit\n            return set()\n",
      ""),
    B('c13-benign-aggregate-ids-rename', RCX,
      "        agg_ids = [agg_uuid_map[member] for member in members\n                   if member in agg_uuid_map]\n        if not agg_ids:\n",
      "        known = [agg_uuid_map[u] for u in members if u in agg_uuid_map]\n        agg_ids = known\n        if not known:\n"),
]

_EXC = ("        for arr in areq.resource_requests:\n            key = (arr.resource_provider.id, arr.resource_class)\n"
        "            psum_res = self.psum_res_by_rp_rc[key]\n")
CONTROLS['C02'] += [
    M('c02-seed-no-final-check-under-isolate', RCX, _EXC,
      "        if self.group_policy == 'isolate' or not self.multi_group_rcs:\n            return False\n" + _EXC,
      'R2.1'),
    B('c02-benign-skip-final-check-without-shared-classes', RCX, _EXC,
      "        if not self.multi_group_rcs:\n            return False\n" + _EXC),
]

_UPD_OLD = ("                # User supplied a parent, let's make sure it exists\n"
            "                if parent_ids is None:\n"
            "                    raise exception.ObjectActionError(\n"
            "                        action='create',\n"
            "                        reason='parent provider UUID does not exist.')\n"
            "                if (my_ids.parent_id is not None and\n"
            "                        my_ids.parent_id != parent_ids.id and\n"
            "                        not allow_reparenting):\n")
_HOIST = ("                is_reparenting = (my_ids.parent_id is not None and\n"
          "                                  my_ids.parent_id != parent_ids.id)\n")
_NONE = ("                # User supplied a parent, let's make sure it exists\n"
         "                if parent_ids is None:\n"
         "                    raise exception.ObjectActionError(\n"
         "                        action='create',\n"
         "                        reason='parent provider UUID does not exist.')\n")
_GATE = "                if is_reparenting and not allow_reparenting:\n"
for _p in ('C15', 'C09', 'C14'):
    CONTROLS[_p] += [B('%s-benign-hoisted-reparent-test' % _p.lower(), ORP, _UPD_OLD,
                       _NONE + _HOIST + _GATE)]
CONTROLS['C15'] += [
    M('c15-seed-deref-before-none-test', ORP, _UPD_OLD, _HOIST + _NONE + _GATE, 'R15.10'),
]

HU2 = H + 'util.py'
_FLAG_SEED = [
    (HU2, "    created_new_consumer = False\n    try:\n        consumer = consumer_obj.Consumer(\n", "    try:\n        consumer = consumer_obj.Consumer(\n"),
    (HU2, "        consumer.create()\n        created_new_consumer = True\n", "        consumer.create()\n"),
    (HU2, "    return consumer, created_new_consumer\n\n\ndef ensure_consumer", "    return consumer\n\n\ndef ensure_consumer"),
    (HU2, "        consumer, created_new_consumer = _create_consumer(\n            ctx, consumer_uuid, proj, user, cons_type_id,\n            expect_new=requires_consumer_generation)\n",
          "        consumer = _create_consumer(\n            ctx, consumer_uuid, proj, user, cons_type_id,\n            expect_new=requires_consumer_generation)\n        created_new_consumer = True\n"),
]
CONTROLS['C12'] += [M2('c12-seed-created-flag-always-true', _FLAG_SEED, 'R12.8')]
CONTROLS['C08'] += [M2('c08-seed-created-flag-always-true', _FLAG_SEED, 'R8.7')]
CONTROLS['C07'] += [
    M2('c07-seed-created-flag-always-true', _FLAG_SEED, 'R7.8'),
    M('c07-seed-collision-adopted-at-generation-0', HU2,
      "        if expect_new:\n            # The caller told us", "        if expect_new and consumer.generation:\n            # The caller told us", 'R7.8'),
    B2('c07-benign-flag-set-in-else', [
        (HU2, "        consumer.create()\n        created_new_consumer = True\n    except exception.ConsumerExists:",
         "        consumer.create()\n    except exception.ConsumerExists:"),
        (HU2, "            consumer.update()\n    return consumer, created_new_consumer\n",
         "            consumer.update()\n    else:\n        created_new_consumer = True\n    return consumer, created_new_consumer\n")]),
]
CONTROLS['C05'] += [reuse('C10', 'c10-drop-incr-delete-inventory', 'c05-inventory-change-no-cas', 'R5.6')]

OU = O + 'usage.py'
OI = O + 'inventory.py'
HI2 = H + 'inventory.py'
CONTROLS['C11'] = [
    M('c11-insert-swaps-unit-fields', ORP,
      "            min_unit=inv_record.min_unit,\n            max_unit=inv_record.max_unit,\n            step_size=inv_record.step_size,\n            allocation_ratio=inv_record.allocation_ratio)\n        ctx.session.execute(ins_stmt)",
      "            min_unit=inv_record.max_unit,\n            max_unit=inv_record.min_unit,\n            step_size=inv_record.step_size,\n            allocation_ratio=inv_record.allocation_ratio)\n        ctx.session.execute(ins_stmt)",
      'R11.1'),
    M('c11-update-drops-reserved-source', ORP,
      "            total=inv_record.total,\n            reserved=inv_record.reserved,\n            min_unit=inv_record.min_unit,\n            max_unit=inv_record.max_unit,\n            step_size=inv_record.step_size,\n            allocation_ratio=inv_record.allocation_ratio)\n        res = ctx.session.execute(upd_stmt)",
      "            total=inv_record.total,\n            reserved=inv_record.total,\n            min_unit=inv_record.min_unit,\n            max_unit=inv_record.max_unit,\n            step_size=inv_record.step_size,\n            allocation_ratio=inv_record.allocation_ratio)\n        res = ctx.session.execute(upd_stmt)",
      'R11.1'),
    M('c11-label-carries-other-column', OA,
      '        consumer.c.generation.label("consumer_generation"),\n        consumer.c.consumer_type_id,',
      '        consumer.c.id.label("consumer_generation"),\n        consumer.c.consumer_type_id,', 'R11.2'),
    M('c11-label-of-other-table', OA,
      '        projects.c.external_id.label("project_external_id"),',
      '        users.c.external_id.label("project_external_id"),', 'R11.2'),
    M('c11-object-takes-other-entity-field', OA,
      "        generation=db_first['consumer_generation'],",
      "        generation=db_first['resource_provider_generation'],", 'R11.3'),
    M('c11-provider-generation-from-consumer', OA,
      "                generation=rec['resource_provider_generation']),",
      "                generation=rec['consumer_generation']),", 'R11.3'),
    M('c11-serialiser-user-is-project', HA,
      "        result['user_id'] = user_id\n", "        result['user_id'] = project_id\n", 'R11.4'),
    M('c11-serialiser-provider-generation-of-consumer', HA,
      "        generation = allocation.resource_provider.generation\n",
      "        generation = allocation.consumer.generation\n", 'R11.4'),
    M('c11-output-fields-drop-reserved', HI2,
      "OUTPUT_INVENTORY_FIELDS = [\n    'total',\n    'reserved',\n", "OUTPUT_INVENTORY_FIELDS = [\n    'total',\n", 'R11.4'),
    M('c11-default-missing', HI2,
      "    'reserved': 0,\n    'min_unit': 1,\n", "    'reserved': 0,\n", 'R11.4'),
    M('c11-inventory-object-swaps-fields', OI,
      "        self.min_unit = min_unit\n        self.max_unit = max_unit\n",
      "        self.min_unit = max_unit\n        self.max_unit = min_unit\n", 'R11.4'),
    M('c11-provider-parent-is-root', HRP,
      "        data['parent_provider_uuid'] = resource_provider.parent_provider_uuid\n",
      "        data['parent_provider_uuid'] = resource_provider.root_provider_uuid\n", 'R11.4'),
    M('c11-usage-takes-class-column', OU,
      "    result = [dict(resource_class=context.rc_cache.string_from_id(item[0]),\n                   usage=item[1])\n              for item in query.all()]\n    return result\n\n\n@db_api.placement_context_manager.reader\ndef _get_all_by_project_user",
      "    result = [dict(resource_class=context.rc_cache.string_from_id(item[0]),\n                   usage=item[0])\n              for item in query.all()]\n    return result\n\n\n@db_api.placement_context_manager.reader\ndef _get_all_by_project_user",
      'R11.5'),
    M('c11-usage-joins-on-provider-only', OU,
      "                                 models.Inventory.resource_class_id ==\n                                 models.Allocation.resource_class_id))\n             .filter(models.ResourceProvider.uuid == rp_uuid)",
      "                                 models.Inventory.resource_class_id ==\n                                 models.Inventory.resource_class_id))\n             .filter(models.ResourceProvider.uuid == rp_uuid)",
      'R11.5'),
    M('c11-delete-trait-answers-200', H + 'trait.py',
      "        raise webob.exc.HTTPConflict(ex.format_message())\n\n    req.response.status = 204\n",
      "        raise webob.exc.HTTPConflict(ex.format_message())\n\n    req.response.status = 200\n", 'R11.6'),
    M('c11-create-class-answers-200', H + 'resource_class.py',
      "    req.response.status = 201\n", "    req.response.status = 200\n", 'R11.6'),
    B('c11-benign-serialiser-rename', HA,
      "        generation = allocation.resource_provider.generation\n        allocation_data[key]['generation'] = generation\n",
      "        rp_gen = allocation.resource_provider.generation\n        allocation_data[key]['generation'] = rp_gen\n"),
    B('c11-benign-status-via-local', H + 'resource_class.py',
      "    req.response.status = 201\n", "    created = 201\n    req.response.status = created\n"),
]

CONTROLS['C11'] += [
    M('c11-seed-count-query-loses-user-filter', OU,
      "        if user_id:\n            count_query = count_query.join(\n                models.User, models.Consumer.user_id == models.User.id)\n"
      "            count_query = count_query.filter(\n                models.User.external_id == user_id)\n",
      "", 'R11.5'),
    M('c11-seed-defaults-shared-by-all-classes', HI2,
      "    inventories = {}\n    for res_class, raw_inventory in data['inventories'].items():\n        inventory_data = copy.copy(INVENTORY_DEFAULTS)\n        inventory_data.update(raw_inventory)\n        inventories[res_class] = inventory_data\n",
      "    inventories = {}\n    inventory_data = copy.copy(INVENTORY_DEFAULTS)\n    for res_class, raw_inventory in data['inventories'].items():\n        inventory_data.update(raw_inventory)\n        inventories[res_class] = dict(inventory_data)\n",
      'R11.7'),
    M('c11-defaults-table-mutated', HI2,
      "    inventory_data = copy.copy(INVENTORY_DEFAULTS)\n    inventory_data.update(data)\n\n    return inventory_data\n",
      "    INVENTORY_DEFAULTS.update(data)\n    inventory_data = copy.copy(INVENTORY_DEFAULTS)\n\n    return inventory_data\n",
      'R11.7'),
    B('c11-benign-defaults-dict-call', HI2,
      "        inventory_data = copy.copy(INVENTORY_DEFAULTS)\n        inventory_data.update(raw_inventory)\n        inventories[res_class] = inventory_data\n",
      "        merged = dict(INVENTORY_DEFAULTS)\n        merged.update(raw_inventory)\n        inventories[res_class] = merged\n"),
]
CONTROLS['C20'] += [
    M('c20-seed-serialiser-skips-requests', H + 'allocation_candidate.py',
      "        result = dict(allocations=rp_resources)\n",
      "        if not rp_resources:\n            continue\n        result = dict(allocations=rp_resources)\n", 'R20.6'),
    B('c20-benign-hoisted-mappings-flag', H + 'allocation_candidate.py',
      "        if want_version.matches((1, 34)):\n            result['mappings'] = ar.mappings\n",
      "        include_mappings = want_version.matches((1, 34))\n        if include_mappings:\n            result['mappings'] = ar.mappings\n"),
]
CONTROLS['C02'] += [
    B('c02-benign-hoisted-mappings-flag', H + 'allocation_candidate.py',
      "        if want_version.matches((1, 34)):\n            result['mappings'] = ar.mappings\n",
      "        include_mappings = want_version.matches((1, 34))\n        if include_mappings:\n            result['mappings'] = ar.mappings\n"),
]
CONTROLS['C13'] += [
    M('c13-seed-parser-drops-emptied-groups', 'placement/util.py',
      "            forbidden_aggs |= forbidden\n    return required_aggs, forbidden_aggs\n",
      "            forbidden_aggs |= forbidden\n    if forbidden_aggs:\n        required_aggs = [aggs - forbidden_aggs for aggs in required_aggs]\n"
      "        required_aggs = [aggs for aggs in required_aggs if aggs]\n    return required_aggs, forbidden_aggs\n",
      'R13.6'),
]

CONTROLS['C14'] += [
    M('c14-reserved-equals-total-gate-inverted', HI2,
      "    if not version.matches((1, 26)):\n        op = operator.le\n", "    if version.matches((1, 26)):\n        op = operator.le\n", 'R14.8'),
    B2('c14-benign-if-else-swapped', [(HI2,
      "    if not version.matches((1, 26)):\n        op = operator.le\n        exc_class = exception.InvalidInventoryCapacity\n    else:\n        op = operator.lt\n        exc_class = exception.InvalidInventoryCapacityReservedCanBeTotal\n",
      "    if version.matches((1, 26)):\n        op = operator.lt\n        exc_class = exception.InvalidInventoryCapacityReservedCanBeTotal\n    else:\n        op = operator.le\n        exc_class = exception.InvalidInventoryCapacity\n")]),
]


RCX = O + 'research_context.py'
ACX = O + 'allocation_candidate.py'

CONTROLS['C03'] = [
    # R3.1 a filter dropped on one of the sibling search paths
    M('c03-tree-path-drops-forbidden-aggs', RCX,
      "        if rg_ctx.forbidden_aggs:\n"
      "            # Aggregate on root spans the whole tree, so the rp itself\n"
      "            # *and its root* should be outside the aggregate\n"
      "            provs_with_inv_rc.filter_by_rp_nor_tree(rps_bad_aggs)\n",
      "        if False:\n"
      "            provs_with_inv_rc.filter_by_rp_nor_tree(set())\n", 'R3.1',
      accept_analysis_error=False),
    M('c03-single-path-drops-forbidden-traits', RCX,
      "    if rg_ctx.forbidden_traits:\n"
      "        rps_bad_traits = get_provider_ids_having_any_trait(\n"
      "            rg_ctx.context, rg_ctx.forbidden_traits.values())\n"
      "        forbidden_rp_ids |= rps_bad_traits\n"
      "        if filtered_rps:\n"
      "            filtered_rps -= rps_bad_traits\n",
      "    if False:\n"
      "        rps_bad_traits = set()\n"
      "        forbidden_rp_ids |= rps_bad_traits\n"
      "        if filtered_rps:\n"
      "            filtered_rps -= rps_bad_traits\n", 'R3.1'),
    M('c03-context-forgets-member-of', RCX,
      "        self.member_of = group.member_of\n",
      "        self.member_of = []\n", 'R3.1'),
    M('c03-reintroduce-F14', RCX,
      "        if rg_ctx.tree_root_id is not None:\n"
      "            # in_tree restricts a group without resources as well\n"
      "            provs_with_resource = set(\n"
      "                rpids for rpids in provs_with_resource\n"
      "                if rpids[1] == rg_ctx.tree_root_id)\n", "", 'R3.1'),
    M('c03-same-subtrees-not-stored', RCX,
      "        self.same_subtrees = rqparams.same_subtrees\n",
      "        self.same_subtrees = []\n", 'R3.1'),
    # R3.2 merge filters
    M('c03-merge-skips-same-subtree', ACX,
      "            if not _satisfies_same_subtree(areq_list, rw_ctx):\n"
      "                continue\n", "", 'R3.2'),
    M('c03-merge-capacity-inverted', ACX,
      "            if rw_ctx.exceeds_capacity(areq):\n                continue\n",
      "            if not rw_ctx.exceeds_capacity(areq):\n"
      "                continue\n", 'R3.2'),
    M('c03-merge-any-group-subset', ACX,
      "        if set(areq_lists_by_suffix) != all_suffixes:\n"
      "            continue\n", "", 'R3.2'),
    M('c03-merge-policy-on-other-list', ACX,
      "            if not _satisfies_group_policy(\n"
      "                    areq_list, rw_ctx.group_policy, "
      "num_granular_groups):\n",
      "            if not _satisfies_group_policy(\n"
      "                    areq_list[:1], rw_ctx.group_policy, "
      "num_granular_groups):\n", 'R3.2'),
    # R3.3 trait check per combination
    M('c03-tree-path-unchecked-combination', ACX,
      "                # This combination doesn't satisfy trait constraints\n"
      "                continue\n",
      "                pass\n", 'R3.3'),
    M('c03-trait-check-ignores-forbidden', ACX,
      "        if conflict_traits:\n", "        if False:\n", 'R3.3'),
    # R3.4 anchors
    M('c03-single-path-skips-anchor-filter', ACX,
      "        if rw_ctx.in_filtered_anchors(root_id):\n"
      "            alloc_requests.append(req_obj)\n",
      "        alloc_requests.append(req_obj)\n", 'R3.4'),
    M('c03-anchor-filter-empty-means-none', RCX,
      "        if self.anchor_root_ids is None:\n"
      "            # Not filtering anchors\n            return True\n",
      "        if not self.anchor_root_ids:\n"
      "            return False\n", 'R3.4'),
    # R3.5 nested providers below 1.29
    M('c03-nested-gate-1-28', H + 'allocation_candidate.py',
      "nested_aware = want_version.matches((1, 29))",
      "nested_aware = want_version.matches((1, 28))", 'R3.5'),
    M('c03-exclude-nested-passes-when-trees', RCX,
      "        if self._nested_aware or not self.has_trees:\n",
      "        if self._nested_aware or self.has_trees:\n", 'R3.5'),
    M('c03-exclude-nested-keeps-any', RCX,
      "            if len(root_by_rp) == len(set(root_by_rp.values())):\n",
      "            if len(root_by_rp) >= len(set(root_by_rp.values())):\n",
      'R3.5'),
    # R3.6 de-duplication
    M('c03-eq-ignores-mappings', ACX,
      "        return (set(self.resource_requests) == "
      "set(other.resource_requests) and\n"
      "                self.mappings == other.mappings)\n",
      "        return set(self.resource_requests) == "
      "set(other.resource_requests)\n", 'R3.6'),
    # R3.7 SQL
    M('c03-sharing-join-wrong-key', RCX,
      "        shr_aggs.c.aggregate_id == shr_with_sps_aggs.c.aggregate_id)\n",
      "        shr_aggs.c.aggregate_id == "
      "shr_with_sps_aggs.c.resource_provider_id)\n", 'R3.7'),
    # benign twins
    B('c03-benign-merge-filters-merged', ACX,
      "            if not _satisfies_same_subtree(areq_list, rw_ctx):\n"
      "                continue\n"
      "            # Now we go from this",
      "            subtree_ok = _satisfies_same_subtree(areq_list, rw_ctx)\n"
      "            if not subtree_ok:\n"
      "                continue\n"
      "            # Now we go from this"),
    B('c03-benign-anchor-filter-inverted', ACX,
      "        if rw_ctx.in_filtered_anchors(root_id):\n"
      "            alloc_requests.append(req_obj)\n",
      "        if not rw_ctx.in_filtered_anchors(root_id):\n"
      "            pass\n"
      "        else:\n"
      "            alloc_requests.append(req_obj)\n"),
    B('c03-benign-context-local', RCX,
      "        self.member_of = group.member_of\n",
      "        required_aggs = group.member_of\n"
      "        self.member_of = required_aggs\n"),
]

CONTROLS['C03'] += [
    M('c03-same-subtree-skipped-for-anchor', ACX,
      "        if not _check_same_subtree(rp_uuids, rw_ctx.parent_uuid_by_rp_uuid):\n"
      "            return False\n",
      "        if areqs[0].anchor_root_provider_uuid in rp_uuids:\n"
      "            continue\n"
      "        if not _check_same_subtree(rp_uuids, rw_ctx.parent_uuid_by_rp_uuid):\n"
      "            return False\n", 'R3.8'),
    M('c03-isolate-passes-at-once', ACX,
      "    if group_policy != 'isolate':\n"
      "        # group_policy=\"none\" means no filtering\n"
      "        return True\n",
      "    if group_policy != 'isolate' or num_granular_groups < 2:\n"
      "        return True\n", 'R3.8'),
    M('c03-same-subtree-occurrence-dropped', 'placement/lib.py',
      "                same_subtrees.append(suffixes)\n",
      "                if suffixes not in same_subtrees[:1]:\n"
      "                    same_subtrees.append(suffixes)\n", 'R3.9'),
    M('c03-rps-in-aggs-from-shared-cache', RCX,
      "            self.rps_in_aggs = provider_ids_matching_aggregates(\n"
      "                context, self.member_of)\n",
      "            self.rps_in_aggs = context.__dict__.setdefault(\n"
      "                '_aggs', {}).setdefault(\n"
      "                    str(self.member_of),\n"
      "                    provider_ids_matching_aggregates(\n"
      "                        context, self.member_of))\n", 'R3.10'),
    B('c03-benign-same-subtree-comprehension', 'placement/lib.py',
      "                same_subtrees.append(suffixes)\n",
      "                same_subtrees += [suffixes]\n"),
]

# ---- round 6 rules -----------------------------------------------------------
CONTROLS['C02'] += [
    M('c02-merge-no-exit-after', RCX,
      "        if not provs_with_inv:\n"
      "            return rp_candidates.RPCandidateList()\n\n",
      "\n", 'R2.6'),
    M('c02-merge-exit-before-filter', RCX,
      "            provs_with_inv_rc.filter_by_rp_nor_tree(rps_bad_aggs)\n"
      "            LOG.debug(\"found %d providers under %d trees after applying \"\n"
      "                      \"negative aggregate filter %s\",\n"
      "                      len(provs_with_inv_rc.rps), len(provs_with_inv_rc.trees),\n"
      "                      rg_ctx.forbidden_aggs)\n"
      "            if not provs_with_inv_rc:\n"
      "                # Short-circuit returning an empty RPCandidateList\n"
      "                return rp_candidates.RPCandidateList()\n",
      "            provs_with_inv_rc.filter_by_rp_nor_tree(rps_bad_aggs)\n",
      'R2.6'),
    B('c02-benign-merge-exit-len', RCX,
      "        if not provs_with_inv:\n"
      "            return rp_candidates.RPCandidateList()\n\n",
      "        if not provs_with_inv:\n"
      "            LOG.debug('no tree left')\n"
      "            return rp_candidates.RPCandidateList()\n\n"),
]
CONTROLS['C03'] += [
    M('c03-exit-before-sharing-added', RCX,
      "        sharing_providers = rg_ctx.get_rps_with_shared_capacity(rc_id)\n",
      "        if rw_ctx.anchor_root_ids:\n"
      "            provs_with_inv_rc.filter_by_tree(rw_ctx.anchor_root_ids)\n"
      "            if not provs_with_inv_rc:\n"
      "                return rp_candidates.RPCandidateList()\n"
      "        sharing_providers = rg_ctx.get_rps_with_shared_capacity(rc_id)\n",
      'R3.11'),
    M('c03-merge-no-exit-after', RCX,
      "        if not provs_with_inv:\n"
      "            return rp_candidates.RPCandidateList()\n\n",
      "\n", 'R3.12'),
]
CONTROLS['C09'] += [
    M('c09-in-tree-extra-predicate', RP,
      "        query = query.where(rp.c.root_provider_id == root_id)\n",
      "        query = query.where(rp.c.root_provider_id == root_id)\n"
      "        query = query.where(rp.c.id >= root_id)\n", 'R9.9'),
    M('c09-create-root-when-parent-given', RP,
      "        if root_id is None:\n",
      "        if parent_id is None or root_id is not None:\n", 'R9.'),
    M('c09-update-unparent-stores-parent-root', RP,
      "                    updates['root_provider_id'] = my_ids.id\n",
      "                    updates['root_provider_id'] = my_ids.root_id\n",
      'R9.2'),
    B('c09-benign-update-root-through-local', RP,
      "                    updates['root_provider_id'] = my_ids.id\n",
      "                    own_id = my_ids.id\n"
      "                    updates['root_provider_id'] = own_id\n"),
]
CONTROLS['C11'] += [
    M('c11-empty-name-filter-skipped', OT,
      "    if 'name_in' in filters:\n",
      "    if filters.get('name_in'):\n", 'R11.10'),
    M('c11-insert-default-instead-of-given', RP,
      "            allocation_ratio=inv_record.allocation_ratio)\n"
      "        ctx.session.execute(ins_stmt)\n",
      "            allocation_ratio=inv_record.allocation_ratio or 1.0)\n"
      "        ctx.session.execute(ins_stmt)\n", 'R11.1'),
    B('c11-benign-name-filter-get', OT,
      "    if 'name_in' in filters:\n",
      "    if filters.get('name_in') is not None:\n"),
]
CONTROLS['C01'] += [
    M('c01-insert-default-instead-of-given', RP,
      "            allocation_ratio=inv_record.allocation_ratio)\n"
      "        ctx.session.execute(ins_stmt)\n",
      "            allocation_ratio=inv_record.allocation_ratio or 1.0)\n"
      "        ctx.session.execute(ins_stmt)\n", 'R1.7'),
]
CONTROLS['C17'] += [
    M('c17-reread-after-commit', H + 'resource_provider.py',
      "    response = req.response\n    response.status = 200\n"
      "    response.body = encodeutils.to_utf8(jsonutils.dumps(\n"
      "        _serialize_provider(req.environ, resource_provider, want_version)))\n",
      "    resource_provider = rp_obj.ResourceProvider.get_by_uuid(\n"
      "        context, uuid)\n"
      "    response = req.response\n    response.status = 200\n"
      "    response.body = encodeutils.to_utf8(jsonutils.dumps(\n"
      "        _serialize_provider(req.environ, resource_provider, want_version)))\n",
      'R17.7'),
]
CONTROLS['C20'] += [
    M('c20-handler-drops-after-limit', H + 'allocation_candidate.py',
      "    response = req.response\n    trx_cands = _transform_allocation_candidates(cands, groups, want_version)\n",
      "    cands.allocation_requests = cands.allocation_requests[1:]\n"
      "    response = req.response\n    trx_cands = _transform_allocation_candidates(cands, groups, want_version)\n",
      'R20.6'),
]
CONTROLS['C16'] += [
    M('c16-old-defaults', 'placement/conf/__init__.py',
      "    policy_opts.set_defaults(conf)\n",
      "    policy_opts.set_defaults(conf, enforce_new_defaults=False)\n",
      'R16.6'),
    M('c16-context-before-test', 'placement/auth.py',
      "        if ctx.user_id is None and req.environ['PATH_INFO'] not in ['/', '']:\n",
      "        req.environ['placement.context'] = ctx\n"
      "        if ctx.user_id is None and req.environ['PATH_INFO'] not in ['/', '']:\n",
      'R16.4'),
    B('c16-benign-401-guard-inverted', 'placement/auth.py',
      "        if ctx.user_id is None and req.environ['PATH_INFO'] not in ['/', '']:\n"
      "            LOG.debug(\"Neither X_USER_ID nor X_USER found in request\")\n"
      "            return webob.exc.HTTPUnauthorized()\n\n"
      "        req.environ['placement.context'] = ctx\n"
      "        return self.application\n",
      "        if ctx.user_id is not None or req.environ['PATH_INFO'] in ('/', ''):\n"
      "            req.environ['placement.context'] = ctx\n"
      "            return self.application\n"
      "        return webob.exc.HTTPUnauthorized()\n"),
]
CONTROLS['C19'] += [
    M('c19-flag-before-sync', OT,
      "            _trait_sync(ctx)\n            _TRAITS_SYNCED = True\n",
      "            _TRAITS_SYNCED = True\n            _trait_sync(ctx)\n",
      'R19.6'),
    B('c19-benign-once-guard-clause', OT,
      "        if not _TRAITS_SYNCED:\n"
      "            _trait_sync(ctx)\n            _TRAITS_SYNCED = True\n",
      "        if _TRAITS_SYNCED:\n            return\n"
      "        _trait_sync(ctx)\n        _TRAITS_SYNCED = True\n"),
]
CONTROLS['C13'] += [
    M('c13-member-of-bang-to-required', 'placement/util.py',
      "    elif value.startswith('!'):\n        forbidden = set([value[1:]])\n",
      "    elif value.startswith('!'):\n        required = set([value[1:]])\n",
      'R13.6'),
    M('c13-member-of-cut-too-short', 'placement/util.py',
      "        forbidden = set(value[4:].split(','))\n",
      "        forbidden = set(value[3:].split(','))\n", 'R13.6'),
]
CONTROLS['C12'] += [
    M('c12-created-flag-in-handler-path', H + 'util.py',
      "    created_new_consumer = False\n    try:\n        consumer = consumer_obj.Consumer(\n",
      "    created_new_consumer = True\n    try:\n        consumer = consumer_obj.Consumer(\n",
      'R12.8'),
]

# ---- round 7 rules -----------------------------------------------------------
CONTROLS['C03'] += [
    M('c03-empty-intersection-means-no-filter', RCX,
      "        LOG.debug(\"found %d providers after applying required aggregates \"\n"
      "                  \"filter (%s)\", len(filtered_rps), rg_ctx.member_of)\n"
      "        if not filtered_rps:\n"
      "            return None, []\n",
      "        LOG.debug(\"found %d providers after applying required aggregates \"\n"
      "                  \"filter (%s)\", len(filtered_rps), rg_ctx.member_of)\n",
      'R3.13'),
]
CONTROLS['C02'] += [
    M('c02-allocations-prefilled-from-mappings', H + 'allocation_candidate.py',
      "        rp_resources = collections.defaultdict(lambda: dict(resources={}))\n"
      "        for rr in ar.resource_requests:\n",
      "        rp_resources = {u: dict(resources={}) for us in\n"
      "                        ar.mappings.values() for u in us}\n"
      "        for rr in ar.resource_requests:\n", 'R2.7'),
]
CONTROLS['C01'] += [
    M('c01-provider-looked-up-under-other-spelling', H + 'allocation.py',
      "            res[rp_uuid] = rp_obj.ResourceProvider.get_by_uuid(ctx, rp_uuid)\n",
      "            res[rp_uuid] = rp_obj.ResourceProvider.get_by_uuid(\n"
      "                ctx, rp_uuid.lower())\n", 'R1.8'),
]
CONTROLS['C09'] += [
    M('c09-listing-drops-rows', RP,
      "    return [\n        ResourceProvider(context, **rp._mapping) for rp in resource_providers\n    ]\n",
      "    return [\n        ResourceProvider(context, **rp._mapping) for rp in resource_providers\n"
      "        if rp.id >= 0\n    ]\n", 'R9.9'),
]
CONTROLS['C12'] += [
    M('c12-compensation-delete-conditional', O + 'consumer.py',
      "    def delete(self):\n        _delete_consumer(self._context, self)\n",
      "    def delete(self):\n        if self.generation:\n"
      "            raise exception.ConcurrentUpdateDetected\n"
      "        _delete_consumer(self._context, self)\n", 'R12.9'),
]
CONTROLS['C15'] += [
    M('c15-step-size-may-be-zero', 'placement/schemas/inventory.py',
      "        \"step_size\": {\n            \"type\": \"integer\",\n"
      "            \"maximum\": db_const.MAX_INT,\n            \"minimum\": 1\n",
      "        \"step_size\": {\n            \"type\": \"integer\",\n"
      "            \"maximum\": db_const.MAX_INT,\n            \"minimum\": 0\n",
      'R15.12'),
]
CONTROLS['C11'] += [
    M('c11-consumer-attributes-own-transaction', H + 'allocation.py',
      "    def _create_allocations():\n        try:\n"
      "            # NOTE(melwitt): Group the consumer and allocation database updates\n"
      "            # in a single transaction so that updates get rolled back\n"
      "            # automatically in the event of a consumer generation conflict.\n"
      "            _update_consumers_and_create_allocations(context)\n"
      "        except Exception:\n"
      "            with excutils.save_and_reraise_exception():\n"
      "                if created_new_consumer:\n",
      "    def _create_allocations():\n        try:\n"
      "            data_util.update_consumers([consumer], {consumer_uuid: request_attr})\n"
      "            _update_consumers_and_create_allocations(context)\n"
      "        except Exception:\n"
      "            with excutils.save_and_reraise_exception():\n"
      "                if created_new_consumer:\n", 'R11.11'),
]
CONTROLS['C14'] += [
    M('c14-find-method-returns-unmatched', 'placement/microversion.py',
      "        if min_version <= version <= max_version:\n            return func\n",
      "        if min_version <= version:\n            return func\n", 'R14.5'),
]

# ---- round 8 rules -----------------------------------------------------------
CONTROLS['C17'] += [
    M('c17-type-lookup-after-consumer-create', H + 'util.py',
      "            expect_new=requires_consumer_generation)\n\n"
      "    # Also return the project, user, and consumer type from the request to use\n",
      "            expect_new=requires_consumer_generation)\n"
      "        if requires_consumer_type:\n"
      "            cons_type_id = get_or_create_consumer_type_id(ctx, consumer_type)\n\n"
      "    # Also return the project, user, and consumer type from the request to use\n",
      'R17.8'),
]
CONTROLS['C12'] += [
    M('c12-refusal-after-consumer-create', H + 'util.py',
      "            expect_new=requires_consumer_generation)\n\n"
      "    # Also return the project, user, and consumer type from the request to use\n",
      "            expect_new=requires_consumer_generation)\n"
      "        if requires_consumer_generation and consumer_generation is not None:\n"
      "            raise webob.exc.HTTPConflict('consumer generation conflict',\n"
      "                                         comment=errors.CONCURRENT_UPDATE)\n\n"
      "    # Also return the project, user, and consumer type from the request to use\n",
      'R12.10'),
]
CONTROLS['C14'] += [
    M('c14-expect-new-not-the-gate', H + 'util.py',
      "            expect_new=requires_consumer_generation)\n",
      "            expect_new=consumer_generation is None)\n", 'R14.11'),
]
CONTROLS['C13'] += [
    M('c13-listing-fast-path', RP,
      "    resource_providers = _get_all_by_filters_from_db(context, filters)\n    return [\n",
      "    if filters and list(filters) == ['uuid']:\n"
      "        return [ResourceProvider.get_by_uuid(context, filters['uuid'])]\n"
      "    resource_providers = _get_all_by_filters_from_db(context, filters)\n    return [\n",
      'R13.8'),
]
CONTROLS['C03'] += [
    M('c03-same-subtree-root-shortcut', ACX,
      "    if len(rp_uuids) == 1:\n        return True\n    # A set of uuids of common ancestors of each rp in question\n",
      "    if len(rp_uuids) == 1:\n        return True\n"
      "    if any(parent_uuid_by_rp_uuid[u] is None for u in rp_uuids):\n"
      "        return True\n"
      "    # A set of uuids of common ancestors of each rp in question\n",
      'R3.14'),
]
CONTROLS['C19'] += [
    M('c19-sync-skipped-by-row-count', OT,
      "    std_traits = set(os_traits.get_traits())\n    sel = sa.select(_TRAIT_TBL.c.name)\n",
      "    std_traits = set(os_traits.get_traits())\n"
      "    n_rows = ctx.session.execute(\n"
      "        sa.select(sa.func.count()).select_from(_TRAIT_TBL)).scalar()\n"
      "    if n_rows >= len(std_traits):\n        return\n"
      "    sel = sa.select(_TRAIT_TBL.c.name)\n", 'R19.6'),
]
CONTROLS['C01'] += [
    M('c01-unchanged-entry-skipped', H + 'allocation.py',
      "        consumer = consumers[consumer_uuid]\n        if allocations:\n",
      "        consumer = consumers[consumer_uuid]\n"
      "        if allocations and consumer.generation == 0:\n"
      "            continue\n"
      "        if allocations:\n", 'R1.9'),
]
CONTROLS['C11'] += [
    M('c11-delete-after-capacity-check', OA,
      "    visited_rps = _check_capacity_exceeded(context, allocs)\n",
      "    visited_rps = _check_capacity_exceeded(context, allocs)\n"
      "    for consumer_id in consumer_ids:\n"
      "        _delete_allocations_for_consumer(context, consumer_id)\n",
      'R11.'),
]
CONTROLS['C01'] += [
    M('c01-class-enumerated-twice', H + 'allocation.py',
      "    for resource_class in resources:\n",
      "    for resource_class in list(resources) + [\n"
      "            rc for rc in resources if rc.startswith('CUSTOM_')]:\n",
      'R1.10'),
]
CONTROLS['C10'] += [
    M('c10-refusal-after-the-handler-returned', 'placement/wsgi_wrapper.py',
      "            super(PlacementWsgify, self).call_func(req, *args, **kwargs)\n",
      "            super(PlacementWsgify, self).call_func(req, *args, **kwargs)\n"
      "            if req.response.content_type == 'text/plain':\n"
      "                raise webob.exc.HTTPNotAcceptable('json only')\n",
      'R10.9'),
]
CONTROLS['C05'] += [
    M('c05-deadlock-retry-around-the-swap', RP,
      "@db_api.placement_context_manager.writer\ndef _set_traits(",
      "@oslo_db_api.wrap_db_retry(max_retries=5, retry_on_deadlock=True)\n"
      "@db_api.placement_context_manager.writer\ndef _set_traits(",
      'R5.7'),
]
CONTROLS['C14'] += [
    M('c14-reintroduce-F17', H + 'inventory.py',
      "    last_modified = last_modified or timeutils.utcnow(with_timezone=True)\n"
      "    return ({'resource_provider_generation': generation,\n",
      "    return ({'resource_provider_generation': generation,\n",
      'R14.12'),
    M('c14-allocations-time-only-when-listed', H + 'allocation.py',
      "    last_modified = last_modified or timeutils.utcnow(with_timezone=True)\n    return last_modified\n",
      "    return last_modified\n", 'R14.12'),
]
CONTROLS['C16'] += [
    M('c16-deprecated-name-of-a-live-rule', 'placement/policies/base.py',
      "    name=RULE_ADMIN_API,\n", "    name='admin_api',\n", 'R16.7'),
]
CONTROLS['C17'] += [
    M('c17-startup-syncs-in-one-transaction', 'placement/deploy.py',
      "    trait.ensure_sync(ctx)\n    resource_class.ensure_sync(ctx)\n",
      "    with db_api.placement_context_manager.writer.using(ctx):\n"
      "        trait.ensure_sync(ctx)\n"
      "        resource_class.ensure_sync(ctx)\n", 'R17.9'),
]
CONTROLS['C11'] += [
    M('c11-omitted-parent-filled-in', H + 'resource_provider.py',
      "    for field in rp_obj.ResourceProvider.SETTABLE_FIELDS:\n        if field in data:\n",
      "    data.setdefault('parent_provider_uuid', None)\n"
      "    for field in rp_obj.ResourceProvider.SETTABLE_FIELDS:\n        if field in data:\n",
      'R11.13'),
]
CONTROLS['C13'] += [
    M('c13-member-of-uuids-respelt', 'placement/util.py',
      "        required = set(value[3:].split(','))\n",
      "        required = set(a.lower() for a in value[3:].split(','))\n",
      'R13.9'),
]
CONTROLS['C15'] += [
    M('c15-lookup-of-a-key-not-tested', 'placement/util.py',
      "    values = req.GET.getall('required' + suffix)\n",
      "    values = [req.GET['required' + suffix]]\n", 'R15.15'),
]
