"""In-memory mutants ("controls") every thorough run must catch, and benign
twins that must stay silent.  Each edit replaces one anchor string that must
occur exactly once in the file; a lost anchor is an analysis error."""


def M(id, file, old, new, expect, **kw):
    d = {'id': id, 'edits': [{'file': file, 'old': old, 'new': new}],
         'expect': expect}
    d.update(kw)
    return d


def M2(id, edits, expect, **kw):
    d = {'id': id, 'edits': [{'file': f, 'old': o, 'new': n}
                             for f, o, n in edits], 'expect': expect}
    d.update(kw)
    return d


def B(id, file, old, new):
    return {'id': id, 'edits': [{'file': file, 'old': old, 'new': new}],
            'benign': True}


H = 'placement/handlers/'
O = 'placement/objects/'

CONTROLS = {}

CONTROLS['C16'] = [
    M('c16-drop-can', H + 'aggregate.py',
      "    context.can(policies.UPDATE)\n", "", 'R16.1'),
    M('c16-can-after-body', H + 'trait.py',
      "    context.can(policies.RP_TRAIT_UPDATE)\n"
      "    want_version = req.environ[microversion.MICROVERSION_ENVIRON]\n"
      "    uuid = util.wsgi_path_item(req.environ, 'uuid')\n"
      "    data = util.extract_json(req.body, schema.SET_TRAITS_FOR_RP_SCHEMA)\n",
      "    want_version = req.environ[microversion.MICROVERSION_ENVIRON]\n"
      "    uuid = util.wsgi_path_item(req.environ, 'uuid')\n"
      "    data = util.extract_json(req.body, schema.SET_TRAITS_FOR_RP_SCHEMA)\n"
      "    context.can(policies.RP_TRAIT_UPDATE)\n", 'R16.2'),
    M('c16-wrong-rule', H + 'inventory.py',
      "    context.can(policies.UPDATE)\n    uuid = util.wsgi_path_item("
      "req.environ, 'uuid')\n    resource_class = util.wsgi_path_item(",
      "    context.can(policies.LIST)\n    uuid = util.wsgi_path_item("
      "req.environ, 'uuid')\n    resource_class = util.wsgi_path_item(",
      'R16.1'),
    M('c16-open-check-str', 'placement/policies/reshaper.py',
      "base.SERVICE", "'@'", 'R16.3'),
    M('c16-reshaper-admin', 'placement/policies/reshaper.py',
      "base.SERVICE", "base.ADMIN_OR_SERVICE", 'R16.3'),
    M('c16-exempt-usages', 'placement/auth.py',
      "not in ['/', '']:\n            LOG.debug",
      "not in ['/', '', '/usages']:\n            LOG.debug", 'R16.4'),
    M('c16-fatal-false', H + 'usage.py',
      "    context.can(policies.PROVIDER_USAGES)",
      "    context.can(policies.PROVIDER_USAGES, fatal=False)", 'R16.1'),
    M('c16-403-to-404', 'placement/handler.py',
      "raise webob.exc.HTTPForbidden(", "raise webob.exc.HTTPNotFound(",
      'R16.4'),
    M('c16-can-under-if', H + 'resource_class.py',
      "    context.can(policies.DELETE)\n",
      "    if name.startswith('CUSTOM_'):\n"
      "        context.can(policies.DELETE)\n", 'R16.2'),
    M('c16-db-before-can', H + 'resource_provider.py',
      "    context.can(policies.SHOW)\n\n    # The containing application "
      "will catch a not found here.\n    resource_provider = "
      "rp_obj.ResourceProvider.get_by_uuid(\n        context, uuid)\n",
      "    resource_provider = rp_obj.ResourceProvider.get_by_uuid(\n"
      "        context, uuid)\n    context.can(policies.SHOW)\n", 'R16.2'),
    M('c16-skip-auth-mw', 'placement/deploy.py',
      "                       auth_middleware,\n", "", 'R16.4'),
    M('c16-base-rule-weak', 'placement/policies/base.py',
      '"role:admin or role:service",', '"role:admin or role:member",',
      'R16.3'),
    M('c16-usages-target', H + 'usage.py',
      "target={'project_id': project_id})",
      "target={'project_id': context.project_id})", 'R16.3'),
    M('c16-unregistered-module', 'placement/policies/__init__.py',
      "        reshaper.list_rules(),\n", "", 'R16.1'),
    B('c16-benign-reorder', H + 'inventory.py',
      "    context = req.environ['placement.context']\n"
      "    context.can(policies.SHOW)\n"
      "    uuid = util.wsgi_path_item(req.environ, 'uuid')\n",
      "    uuid = util.wsgi_path_item(req.environ, 'uuid')\n"
      "    context = req.environ['placement.context']\n"
      "    context.can(policies.SHOW)\n"),
    B('c16-benign-rename', H + 'usage.py',
      "    context = req.environ['placement.context']\n"
      "    context.can(policies.PROVIDER_USAGES)\n"
      "    uuid = util.wsgi_path_item(req.environ, 'uuid')\n",
      "    ctxt = req.environ['placement.context']\n"
      "    ctxt.can(policies.PROVIDER_USAGES)\n"
      "    context = ctxt\n"
      "    uuid = util.wsgi_path_item(req.environ, 'uuid')\n"),
]

RP = O + 'resource_provider.py'
CONTROLS['C10'] = [
    M('c10-drop-incr-delete-inventory', RP,
      "            % resource_class)\n    rp.increment_generation()\n",
      "            % resource_class)\n", 'R10.1'),
    M('c10-early-return-set-inventory', RP,
      "    if to_delete:\n        _delete_inventory_from_provider(context, rp, to_delete)\n",
      "    if to_delete:\n        _delete_inventory_from_provider(context, rp, to_delete)\n"
      "        if not to_add and not to_update:\n            return exceeded\n",
      'R10.1'),
    M('c10-incr-other-object', RP,
      "        _add_traits_to_provider(context, rp.id, to_add)\n    rp.increment_generation()\n",
      "        _add_traits_to_provider(context, rp.id, to_add)\n"
      "    ResourceProvider.get_by_uuid(context, rp.uuid).increment_generation()\n",
      'R10.1'),
    M('c10-agg-flag-false', H + 'aggregate.py',
      "                    increment_generation=consider_generation)",
      "                    increment_generation=False)", 'R10.3'),
    M('c10-agg-flag-other-gate', H + 'aggregate.py',
      "    consider_generation = want_version.matches(\n        min_version=_INCLUDE_GENERATION_VERSION)",
      "    consider_generation = want_version.matches(\n        min_version=(1, 20))",
      'R10.3'),
    M('c10-write-in-get', H + 'trait.py',
      "    traits = trait_obj.get_all_by_resource_provider(context, rp)\n",
      "    traits = trait_obj.get_all_by_resource_provider(context, rp)\n"
      "    rp.set_traits(traits)\n", 'R10.6'),
    M('c10-consumer-update-generation', O + 'consumer.py',
      "                consumer_type_id=self.consumer_type_id)\n            # NOTE(jaypipes): We add",
      "                consumer_type_id=self.consumer_type_id,\n"
      "                generation=self.generation)\n            # NOTE(jaypipes): We add",
      'R10.4'),
    M('c10-skip-provider-loop', O + 'allocation.py',
      "    for rp in visited_rps.values():\n        rp.increment_generation()\n",
      "    if len(allocs) > 1:\n        for rp in visited_rps.values():\n"
      "            rp.increment_generation()\n", 'R10.2'),
    M('c10-continue-before-visit', O + 'allocation.py',
      "        if alloc.consumer.id not in visited_consumers:\n"
      "            visited_consumers[alloc.consumer.id] = alloc.consumer\n",
      "        if alloc.used == 0 and len(allocs) > 1:\n            continue\n"
      "        if alloc.consumer.id not in visited_consumers:\n"
      "            visited_consumers[alloc.consumer.id] = alloc.consumer\n",
      'R10.2'),
    M('c10-provider-map-after-skip', O + 'allocation.py',
      "        if rp_uuid not in res_providers:\n"
      "            res_providers[rp_uuid] = alloc.resource_provider\n"
      "        amount_needed = alloc.used\n"
      "        rp_resource_class_sum[rp_uuid][rc_id] += amount_needed\n"
      "        # No use checking usage if we're not asking for anything\n"
      "        if amount_needed == 0:\n            continue\n",
      "        amount_needed = alloc.used\n"
      "        rp_resource_class_sum[rp_uuid][rc_id] += amount_needed\n"
      "        # No use checking usage if we're not asking for anything\n"
      "        if amount_needed == 0:\n            continue\n"
      "        if rp_uuid not in res_providers:\n"
      "            res_providers[rp_uuid] = alloc.resource_provider\n",
      'R10.2'),
    M('c10-response-from-reread', H + 'inventory.py',
      "    return _send_inventories(req, resource_provider, inventories)\n",
      "    fresh = rp_obj.ResourceProvider.get_by_uuid(context, uuid)\n"
      "    return _send_inventories(req, fresh, inventories)\n", 'R10.5'),
    B('c10-benign-rename', RP,
      "    rc_id = context.rc_cache.id_from_string(inventory.resource_class)\n"
      "    _add_inventory_to_provider(\n        context, rp, [inventory], set([rc_id]))\n"
      "    rp.increment_generation()\n",
      "    rcid = context.rc_cache.id_from_string(inventory.resource_class)\n"
      "    _add_inventory_to_provider(\n        context, rp, [inventory], {rcid})\n"
      "    rp.increment_generation()\n"),
    B('c10-benign-incr-in-both-branches', RP,
      "    if to_add:\n        _add_traits_to_provider(context, rp.id, to_add)\n    rp.increment_generation()\n",
      "    if to_add:\n        _add_traits_to_provider(context, rp.id, to_add)\n"
      "        rp.increment_generation()\n    else:\n        rp.increment_generation()\n"),
]

CONTROLS['C05'] = [
    M('c05-drop-generation-conjunct', RP,
      "        upd_stmt = _RP_TBL.update().where(sa.and_(\n"
      "            _RP_TBL.c.id == self.id,\n"
      "            _RP_TBL.c.generation == rp_gen)).values(",
      "        upd_stmt = _RP_TBL.update().where(sa.and_(\n"
      "            _RP_TBL.c.id == self.id)).values(", 'R5.1'),
    M('c05-rowcount-gt', RP,
      "        if res.rowcount != 1:\n            raise exception.ResourceProviderConcurrentUpdateDetected()",
      "        if res.rowcount > 1:\n            raise exception.ResourceProviderConcurrentUpdateDetected()",
      'R5.1'),
    M('c05-no-plus-one', RP,
      "        new_generation = rp_gen + 1\n        upd_stmt = _RP_TBL",
      "        new_generation = rp_gen\n        upd_stmt = _RP_TBL", 'R5.1'),
    M('c05-where-memory-after-bump', RP,
      "        rp_gen = self.generation\n        new_generation = rp_gen + 1\n",
      "        rp_gen = self.generation\n        new_generation = rp_gen + 1\n"
      "        self.generation = new_generation\n", 'R5.1'),
    M('c05-drop-early-check', H + 'inventory.py',
      "    data = _extract_inventories(req.body, schema.PUT_INVENTORY_SCHEMA)\n"
      "    if data['resource_provider_generation'] != resource_provider.generation:\n"
      "        raise webob.exc.HTTPConflict(\n"
      "            'resource provider generation conflict',\n"
      "            comment=errors.CONCURRENT_UPDATE)\n",
      "    data = _extract_inventories(req.body, schema.PUT_INVENTORY_SCHEMA)\n",
      'R5.2'),
    M('c05-check-after-mutator', H + 'trait.py',
      "    if resource_provider.generation != rp_gen:\n"
      "        raise webob.exc.HTTPConflict(\n"
      "            \"Resource provider's generation already changed. Please update \"\n"
      "            \"the generation and try again.\",\n"
      "            json_formatter=util.json_error_formatter,\n"
      "            comment=errors.CONCURRENT_UPDATE)\n",
      "    if resource_provider.generation < rp_gen:\n"
      "        raise webob.exc.HTTPConflict(\n"
      "            \"Resource provider's generation already changed. Please update \"\n"
      "            \"the generation and try again.\",\n"
      "            json_formatter=util.json_error_formatter,\n"
      "            comment=errors.CONCURRENT_UPDATE)\n", 'R5.2'),
    M('c05-reread-after-check', H + 'inventory.py',
      "    inventory = make_inventory_object(resource_provider,\n"
      "                                      resource_class,\n"
      "                                      **data)\n\n    try:\n"
      "        _validate_inventory_capacity(\n"
      "            req.environ[microversion.MICROVERSION_ENVIRON], inventory)\n"
      "        resource_provider.update_inventory(inventory)",
      "    inventory = make_inventory_object(resource_provider,\n"
      "                                      resource_class,\n"
      "                                      **data)\n\n    try:\n"
      "        _validate_inventory_capacity(\n"
      "            req.environ[microversion.MICROVERSION_ENVIRON], inventory)\n"
      "        rp_obj.ResourceProvider.get_by_uuid(\n"
      "            context, uuid).update_inventory(inventory)", 'R5.2'),
    M('c05-unmap-conflict-update-inventory', H + 'inventory.py',
      "        resource_provider.update_inventory(inventory)\n"
      "    except (exception.ConcurrentUpdateDetected,\n"
      "            db_exc.DBDuplicateEntry) as exc:",
      "        resource_provider.update_inventory(inventory)\n"
      "    except db_exc.DBDuplicateEntry as exc:", 'R5.3'),
    M('c05-reintroduce-F2', H + 'trait.py',
      "    try:\n        resource_provider.set_traits(trait_objs)\n"
      "    except exception.ConcurrentUpdateDetected as e:\n"
      "        raise webob.exc.HTTPConflict(e.format_message(),\n"
      "                                     comment=errors.CONCURRENT_UPDATE)\n",
      "    resource_provider.set_traits(trait_objs)\n", 'R5.3'),
    M('c05-wrong-error-code', H + 'inventory.py',
      "            'Unable to delete inventory for resource provider '\n"
      "            '%(rp_uuid)s because the inventory was updated by '\n"
      "            'another process. Please retry your request.' %\n"
      "            {'rp_uuid': resource_provider.uuid},\n"
      "            comment=errors.CONCURRENT_UPDATE)",
      "            'Unable to delete inventory for resource provider '\n"
      "            '%(rp_uuid)s because the inventory was updated by '\n"
      "            'another process. Please retry your request.' %\n"
      "            {'rp_uuid': resource_provider.uuid},\n"
      "            comment=errors.INVENTORY_INUSE)", 'R5.3'),
    M('c05-conflict-as-400', H + 'aggregate.py',
      "    except exception.ConcurrentUpdateDetected as exc:\n"
      "        raise webob.exc.HTTPConflict(",
      "    except exception.ConcurrentUpdateDetected as exc:\n"
      "        raise webob.exc.HTTPBadRequest(", 'R5.3'),
    M('c05-aggregate-check-wrong-gate', H + 'aggregate.py',
      "    if consider_generation:\n        # Check for generation conflict\n",
      "    if want_version.matches((1, 21)):\n        # Check for generation conflict\n",
      'R5.2'),
    B('c05-benign-swap-sides', H + 'inventory.py',
      "    data = _extract_inventory(req.body, schema.BASE_INVENTORY_SCHEMA)\n"
      "    if data['resource_provider_generation'] != resource_provider.generation:",
      "    data = _extract_inventory(req.body, schema.BASE_INVENTORY_SCHEMA)\n"
      "    if resource_provider.generation != data['resource_provider_generation']:"),
    B('c05-benign-rename-gen', RP,
      "        rp_gen = self.generation\n        new_generation = rp_gen + 1\n"
      "        upd_stmt = _RP_TBL.update().where(sa.and_(\n"
      "            _RP_TBL.c.id == self.id,\n"
      "            _RP_TBL.c.generation == rp_gen)).values(",
      "        gen = self.generation\n        new_generation = 1 + gen\n"
      "        upd_stmt = _RP_TBL.update().where(sa.and_(\n"
      "            _RP_TBL.c.generation == gen,\n"
      "            _RP_TBL.c.id == self.id)).values("),
]
