"""Normal form of arithmetic comparisons: ``polynomial REL 0`` over atoms.

Lets one specification (the inequalities in the property statements) be
compared with Python code and with SQLAlchemy clause builders, robustly
against renaming, operand order and algebraic rewriting.
"""
import ast

from psa.model import src, own_nodes

COLUMNS = {'total', 'reserved', 'allocation_ratio', 'min_unit', 'max_unit',
           'step_size'}


class Poly(object):
    def __init__(self, terms=None):
        self.t = {k: v for k, v in (terms or {}).items() if v != 0}

    @staticmethod
    def const(c):
        return Poly({(): c})

    @staticmethod
    def atom(name):
        return Poly({(name,): 1})

    def __add__(self, o):
        t = dict(self.t)
        for k, v in o.t.items():
            t[k] = t.get(k, 0) + v
        return Poly(t)

    def __neg__(self):
        return Poly({k: -v for k, v in self.t.items()})

    def __sub__(self, o):
        return self + (-o)

    def __mul__(self, o):
        t = {}
        for k1, v1 in self.t.items():
            for k2, v2 in o.t.items():
                k = tuple(sorted(k1 + k2))
                t[k] = t.get(k, 0) + v1 * v2
        return Poly(t)

    def key(self):
        return tuple(sorted(self.t.items()))

    def __eq__(self, o):
        return isinstance(o, Poly) and self.key() == o.key()

    def __hash__(self):
        return hash(self.key())

    def atoms(self):
        out = set()
        for k in self.t:
            out.update(k)
        return out

    def subst(self, name, poly):
        out = Poly()
        for k, v in self.t.items():
            term = Poly.const(v)
            for a in k:
                term = term * (poly if a == name else Poly.atom(a))
            out = out + term
        return out

    def __repr__(self):
        if not self.t:
            return '0'
        parts = []
        for k, v in sorted(self.t.items()):
            m = '*'.join(k) if k else '1'
            parts.append('%+d*%s' % (v, m) if k else '%+d' % v)
        return ' '.join(parts)


class Cmp(object):
    """poly REL 0 with REL in '<0', '<=0', '==0', '!=0'."""

    def __init__(self, poly, rel):
        if rel in ('==0', '!=0'):
            # canonical sign
            k = poly.key()
            if k and k[0][1] < 0:
                poly = -poly
        self.poly = poly
        self.rel = rel

    def negate(self):
        if self.rel == '<0':
            return Cmp(-self.poly, '<=0')
        if self.rel == '<=0':
            return Cmp(-self.poly, '<0')
        if self.rel == '==0':
            return Cmp(self.poly, '!=0')
        return Cmp(self.poly, '==0')

    def subst(self, name, poly):
        return Cmp(self.poly.subst(name, poly), self.rel)

    def key(self):
        return (self.poly.key(), self.rel)

    def __eq__(self, o):
        return isinstance(o, Cmp) and self.key() == o.key()

    def __hash__(self):
        return hash(self.key())

    def __repr__(self):
        return '[%r %s]' % (self.poly, self.rel)


class Normalizer(object):
    """Expression -> Poly under a naming table and local inlining."""

    def __init__(self, func=None, naming=None, inline=True):
        self.func = func
        self.naming = naming or (lambda e: None)
        self.inline = inline
        self._defs = {}
        if func is not None and inline:
            for n in own_nodes(func.node):
                if isinstance(n, ast.Assign) and len(n.targets) == 1 and \
                        isinstance(n.targets[0], ast.Name):
                    self._defs.setdefault(n.targets[0].id, []).append(
                        n.value)

    def poly(self, e, depth=0):
        nm = self.naming(e)
        if nm is not None:
            return Poly.atom(nm)
        if isinstance(e, ast.Constant) and isinstance(e.value, (int, float)) \
                and not isinstance(e.value, bool):
            return Poly.const(e.value)
        if isinstance(e, ast.Name):
            ds = self._defs.get(e.id, [])
            if len(ds) == 1 and depth < 6:
                return self.poly(ds[0], depth + 1)
            return Poly.atom(e.id)
        if isinstance(e, ast.BinOp):
            if isinstance(e.op, ast.Add):
                return self.poly(e.left, depth) + self.poly(e.right, depth)
            if isinstance(e.op, ast.Sub):
                return self.poly(e.left, depth) - self.poly(e.right, depth)
            if isinstance(e.op, ast.Mult):
                return self.poly(e.left, depth) * self.poly(e.right, depth)
            if isinstance(e.op, ast.Mod):
                return Poly.atom('mod(%r,%r)' % (self.poly(e.left, depth),
                                                 self.poly(e.right, depth)))
        if isinstance(e, ast.UnaryOp) and isinstance(e.op, ast.USub):
            return -self.poly(e.operand, depth)
        if isinstance(e, ast.Call):
            fn = src(e.func)
            if fn == 'int' and len(e.args) == 1:
                return Poly.atom('int(%r)' % self.poly(e.args[0], depth))
        return Poly.atom('?' + src(e))

    def cmp(self, e):
        """ast.Compare (single op) -> Cmp, or None."""
        if isinstance(e, ast.UnaryOp) and isinstance(e.op, ast.Not):
            c = self.cmp(e.operand)
            return c.negate() if c is not None else None
        if not (isinstance(e, ast.Compare) and len(e.ops) == 1):
            return None
        a = self.poly(e.left)
        b = self.poly(e.comparators[0])
        op = e.ops[0]
        if isinstance(op, ast.Lt):
            return Cmp(a - b, '<0')
        if isinstance(op, ast.Gt):
            return Cmp(b - a, '<0')
        if isinstance(op, ast.LtE):
            return Cmp(a - b, '<=0')
        if isinstance(op, ast.GtE):
            return Cmp(b - a, '<=0')
        if isinstance(op, ast.Eq):
            return Cmp(a - b, '==0')
        if isinstance(op, ast.NotEq):
            return Cmp(a - b, '!=0')
        return None

    def disjuncts(self, e):
        """Flatten ``a or b or c`` into Cmp list (None entries if opaque)."""
        if isinstance(e, ast.BoolOp) and isinstance(e.op, ast.Or):
            out = []
            for v in e.values:
                out.extend(self.disjuncts(v))
            return out
        # x < c + max(a, b)  is  x < c + a  or  x < c + b  (the larger side
        # of a comparison is as large as its largest alternative); with the
        # inlining of single-definition locals the call may sit behind a
        # name
        ex = self._expand_extremum(e)
        if ex is not None:
            out = []
            for v in ex:
                out.extend(self.disjuncts(v))
            return out
        return [self.cmp(e)]

    def _expand_extremum(self, e):
        if not (isinstance(e, ast.Compare) and len(e.ops) == 1):
            return None
        from psa.rules import common as C
        full = e
        if self.func is not None and self.inline:
            # only the local that holds the max(...) itself is replaced:
            # the naming table is keyed by the text of the other operands
            from psa import pathval
            env = {nm: ds[0] for nm, ds in self._defs.items()
                   if len(ds) == 1 and isinstance(ds[0], ast.Call)
                   and isinstance(ds[0].func, ast.Name)
                   and ds[0].func.id in ('max', 'min')}
            if env:
                full = pathval.subst(e, env)
        op = e.ops[0]
        left, right = full.left, full.comparators[0]
        if isinstance(op, (ast.Lt, ast.LtE)):
            big, fn = right, 'max'
        elif isinstance(op, (ast.Gt, ast.GtE)):
            big, fn = left, 'max'
        else:
            return None
        calls = [n for n in ast.walk(big) if isinstance(n, ast.Call)
                 and isinstance(n.func, ast.Name) and n.func.id == fn
                 and len(n.args) >= 2 and not n.keywords]
        if len(calls) != 1:
            return None
        call = calls[0]
        # only in a position where the side grows with the call's value:
        # the call itself or a summand of additions
        cur, ok = big, False
        stack = [big]
        while stack:
            x = stack.pop()
            if x is call:
                ok = True
                break
            if isinstance(x, ast.BinOp) and isinstance(x.op, ast.Add):
                stack.extend([x.left, x.right])
        if not ok:
            return None
        outs = []
        for a in call.args:
            import copy as _c
            new = _c.deepcopy(full)

            class T(ast.NodeTransformer):
                def visit_Call(self_, node):
                    if ast.dump(node) == ast.dump(call):
                        return _c.deepcopy(a)
                    return self_.generic_visit(node)
            outs.append(ast.fix_missing_locations(T().visit(new)))
        return outs


def column_naming(extra=None):
    """Naming table: record attributes and SQL columns -> the same atoms."""
    extra = extra or {}

    def naming(e):
        s = src(e)
        if s in extra:
            return extra[s]
        # x.total / x.c.total
        if isinstance(e, ast.Attribute) and e.attr in COLUMNS:
            return e.attr
        # usage.used or 0
        if isinstance(e, ast.BoolOp) and isinstance(e.op, ast.Or) and len(
                e.values) == 2 and isinstance(
                    e.values[0], ast.Attribute) and e.values[0].attr == \
                'used' and isinstance(e.values[1], ast.Constant) and \
                e.values[1].value == 0:
            return 'used0'
        # coalesce(x.c.used, 0)
        if isinstance(e, ast.Call) and src(e.func).endswith('coalesce') and \
                len(e.args) == 2 and isinstance(
                    e.args[0], ast.Attribute) and e.args[0].attr == 'used' \
                and isinstance(e.args[1], ast.Constant) and \
                e.args[1].value == 0:
            return 'used0'
        return None
    return naming
