"""Call resolution with a flow-insensitive type propagation.

Types are dotted names of project classes.  A variable's type set conflates a
container with its elements (``for rp in providers`` gives ``rp`` the types of
``providers``), which over-approximates callees and is sound for the
reachability / may-raise / effect queries built on top.
"""
import ast

from psa import model
from psa.model import own_nodes, local_names

# receiver-name conventions of the repository (last resort, explicit)
NAME_TYPES = {
    'rp': 'placement.objects.resource_provider.ResourceProvider',
    'resource_provider': 'placement.objects.resource_provider.ResourceProvider',
    'provider': 'placement.objects.resource_provider.ResourceProvider',
    'child_rp': 'placement.objects.resource_provider.ResourceProvider',
    'consumer': 'placement.objects.consumer.Consumer',
    'ctx': 'placement.context.RequestContext',
    'context': 'placement.context.RequestContext',
    'trait': 'placement.objects.trait.Trait',
    'rc': 'placement.objects.resource_class.ResourceClass',
    'proj': 'placement.objects.project.Project',
    'user': 'placement.objects.user.User',
    'cons_type': 'placement.objects.consumer_type.ConsumerType',
    'rw_ctx': 'placement.objects.research_context.RequestWideSearchContext',
    'rg_ctx': 'placement.objects.research_context.RequestGroupSearchContext',
}
# attribute-name conventions: ``x.<attr>`` has this type
ATTR_TYPES = {
    'consumer': 'placement.objects.consumer.Consumer',
    'resource_provider':
        'placement.objects.resource_provider.ResourceProvider',
    '_context': 'placement.context.RequestContext',
    '_ctx': 'placement.context.RequestContext',
    'context': 'placement.context.RequestContext',
    'rc_cache': 'placement.attribute_cache.ResourceClassCache',
    'trait_cache': 'placement.attribute_cache.TraitCache',
    'ct_cache': 'placement.attribute_cache.ConsumerTypeCache',
    'project': 'placement.objects.project.Project',
    'user': 'placement.objects.user.User',
}
# environ keys with a known type
ENVIRON_TYPES = {
    'placement.context': 'placement.context.RequestContext',
}

# method names that exist on builtin containers / SQLAlchemy objects: resolve
# to a project method only through a typed receiver
BUILTIN_METHODS = {
    'update', 'add', 'pop', 'delete', 'get', 'append', 'extend', 'remove',
    'items', 'keys', 'values', 'clear', 'copy', 'save', 'create', 'count',
    'first', 'all', 'one', 'filter', 'filter_by', 'join', 'split', 'strip',
    'lstrip', 'startswith', 'endswith', 'format', 'lower', 'upper', 'where',
    'select_from', 'execute', 'fetchall', 'fetchone', 'insert', 'values',
    'group_by', 'label', 'in_', 'is_', 'subquery', 'alias', 'limit',
    'union', 'intersection', 'difference', 'setdefault', 'sort', 'index',
    'match', 'groups', 'getall', 'partition', 'encode', 'decode', 'query',
    'flush', 'distinct', 'outerjoin', 'like', 'configure', 'reset',
    'debug', 'warning', 'error', 'exception', 'info', 'matches', 'destroy',
    'find', 'discard', 'isdisjoint', 'issubset', 'issuperset', 'total',
}


class CallSite(object):
    __slots__ = ('caller', 'node', 'callees', 'kind', 'dotted', 'recv_types',
                 'method')

    def __init__(self, caller, node):
        self.caller = caller
        self.node = node
        self.callees = []      # list of Func
        self.kind = 'unresolved'
        self.dotted = None     # external dotted name, if any
        self.recv_types = ()   # project classes of the receiver, if typed
        self.method = None

    def __repr__(self):
        return '<Call %s %s -> %s>' % (
            self.caller.loc(self.node), self.kind,
            [f.qname for f in self.callees] or self.dotted)


class CallGraph(object):
    def __init__(self, prog):
        self.prog = prog
        self.sites = {}        # Func -> [CallSite]
        self.site_of = {}      # ast.Call -> CallSite
        self.var_types = {}    # Func -> {name: set(dotted class)}
        self.ret_types = {}    # Func -> set(dotted class)
        self.param_types = {}  # Func -> {param: set}
        self.callers = {}      # Func -> set(Func)
        self._method_index = {}
        for c in prog.classes.values():
            for name in c.methods:
                self._method_index.setdefault(name, []).append(c)
        self._build()

    # -- public ------------------------------------------------------------
    def calls_in(self, func):
        return self.sites.get(func, [])

    def callees(self, func):
        out = []
        for s in self.calls_in(func):
            out.extend(s.callees)
        return out

    def reachable(self, roots, stop=None):
        """Functions reachable from roots (roots included)."""
        seen = set()
        stack = list(roots)
        while stack:
            f = stack.pop()
            if f in seen:
                continue
            seen.add(f)
            if stop is not None and stop(f) and f not in roots:
                continue
            for g in self.callees(f):
                if g not in seen:
                    stack.append(g)
        return seen

    def stats(self):
        c = {'resolved': 0, 'external': 0, 'builtin': 0,
             'assumed_builtin': 0, 'unresolved': 0, 'dynamic': 0}
        for sites in self.sites.values():
            for s in sites:
                c[s.kind] = c.get(s.kind, 0) + 1
        c['total'] = sum(c.values())
        return c

    # -- construction --------------------------------------------------------
    def _build(self):
        prog = self.prog
        for f in prog.funcs:
            self.var_types[f] = {}
            self.param_types[f] = {}
            self.ret_types[f] = set()
        # iterate type propagation to a small fixpoint
        for _round in range(4):
            changed = False
            for f in prog.funcs:
                if self._infer_locals(f):
                    changed = True
            for f in prog.funcs:
                if self._infer_returns(f):
                    changed = True
            for f in prog.funcs:
                if self._propagate_args(f):
                    changed = True
            if not changed:
                break
        for f in prog.funcs:
            sites = []
            for n in own_nodes(f.node):
                if isinstance(n, ast.Call):
                    s = self._resolve_call(f, n)
                    sites.append(s)
                    self.site_of[n] = s
            # decorator expressions are evaluated in the enclosing scope;
            # they are accounted separately by the rules
            self.sites[f] = sites
            for s in sites:
                for g in s.callees:
                    self.callers.setdefault(g, set()).add(f)

    def _class_of(self, dotted):
        return self.prog.classes.get(dotted)

    def expr_types(self, f, e):
        """Set of project class names the expression may evaluate to."""
        prog = self.prog
        if isinstance(e, ast.Name):
            t = set()
            g = f
            while g is not None:
                vt = self.var_types.get(g, {})
                if e.id in vt:
                    t |= vt[e.id]
                pt = self.param_types.get(g, {})
                if e.id in pt:
                    t |= pt[e.id]
                if e.id in local_names(g) or e.id in g.params:
                    break
                g = g.parent
            if e.id == 'self' and f.cls is not None:
                t.add(f.cls.dotted)
            if e.id == 'cls' and f.cls is not None:
                t.add('type:' + f.cls.dotted)
            if not t and e.id in NAME_TYPES:
                t.add(NAME_TYPES[e.id])
            return t
        if isinstance(e, ast.Attribute):
            if e.attr in ATTR_TYPES:
                # do not type module attributes this way
                d = prog.dotted(f.module, e, f)
                if d is None or prog.lookup(d) is None:
                    return {ATTR_TYPES[e.attr]}
            d = prog.dotted(f.module, e, f)
            tgt = prog.lookup(d) if d else None
            if isinstance(tgt, model.Class):
                return {'type:' + tgt.dotted}
            return set()
        if isinstance(e, ast.Call):
            fn = e.func
            # constructor / classmethod / function return types
            d = prog.dotted(f.module, fn, f)
            tgt = prog.lookup(d) if d else None
            if isinstance(tgt, model.Class):
                return {tgt.dotted}
            if isinstance(tgt, list):
                t = set()
                for g in tgt:
                    t |= self._args_of(f, e, g, self._ret_of(g, None))
                return t
            if isinstance(fn, ast.Name) and fn.id == 'cls' and f.cls:
                return {f.cls.dotted}
            if isinstance(fn, ast.Attribute):
                rt = self.expr_types(f, fn.value)
                t = set()
                for c in rt:
                    cname = c[5:] if c.startswith('type:') else c
                    cls = self._class_of(cname)
                    if cls is None:
                        continue
                    ms = prog.find_method(cls, fn.attr)
                    for g in ms or []:
                        t |= self._args_of(f, e, g, self._ret_of(g, cname))
                if fn.attr in ('values', 'items', 'keys', 'copy') and not t:
                    return {x for x in rt if not x.startswith('type:')}
                return t
            if isinstance(fn, ast.Name) and fn.id in ('list', 'set', 'sorted',
                                                      'tuple', 'reversed'):
                if e.args:
                    return self.expr_types(f, e.args[0])
            return set()
        if isinstance(e, ast.Subscript):
            # environ['placement.context']
            if isinstance(e.slice, ast.Constant) and e.slice.value in \
                    ENVIRON_TYPES:
                return {ENVIRON_TYPES[e.slice.value]}
            return {x for x in self.expr_types(f, e.value)
                    if not x.startswith('type:')}
        if isinstance(e, (ast.List, ast.Tuple, ast.Set)):
            t = set()
            for x in e.elts:
                t |= self.expr_types(f, x)
            return t
        if isinstance(e, ast.Dict):
            t = set()
            for x in list(e.keys) + list(e.values):
                if x is not None:
                    t |= self.expr_types(f, x)
            return t
        if isinstance(e, (ast.ListComp, ast.SetComp, ast.GeneratorExp)):
            return self.expr_types(f, e.elt)
        if isinstance(e, ast.DictComp):
            return self.expr_types(f, e.key) | self.expr_types(f, e.value)
        if isinstance(e, ast.IfExp):
            return self.expr_types(f, e.body) | self.expr_types(f, e.orelse)
        if isinstance(e, ast.BoolOp):
            t = set()
            for x in e.values:
                t |= self.expr_types(f, x)
            return t
        if isinstance(e, ast.Starred):
            return self.expr_types(f, e.value)
        return set()

    def _args_of(self, f, call, g, types):
        """Replace 'ARG:i' (the callee returns its i-th parameter) by the
        types of the argument this call passes there."""
        out = set()
        for x in types:
            if not x.startswith('ARG:'):
                out.add(x)
                continue
            i = int(x[4:])
            decs = [d.qname for d in g.decorators]
            bound = g.cls is not None and 'staticmethod' not in decs and \
                isinstance(call.func, ast.Attribute)
            j = i - 1 if bound else i
            if 0 <= j < len(call.args):
                out |= {y for y in self.expr_types(f, call.args[j])
                        if not y.startswith('type:')}
            else:
                pn = g.params[i] if i < len(g.params) else None
                for k in call.keywords:
                    if k.arg == pn:
                        out |= {y for y in self.expr_types(f, k.value)
                                if not y.startswith('type:')}
        return out

    def _ret_of(self, g, recv_cls):
        t = set(self.ret_types.get(g, ()))
        out = set()
        for x in t:
            if x == 'type:SELF' or x == 'SELF':
                if recv_cls:
                    out.add(recv_cls)
                elif g.cls is not None:
                    out.add(g.cls.dotted)
            else:
                out.add(x)
        return out

    def _bind_target(self, f, target, types, vt):
        changed = False
        if isinstance(target, ast.Name):
            cur = vt.setdefault(target.id, set())
            new = {x for x in types if not x.startswith('type:')}
            if not new <= cur:
                cur |= new
                changed = True
        elif isinstance(target, (ast.Tuple, ast.List)):
            for t in target.elts:
                if self._bind_target(f, t, types, vt):
                    changed = True
        elif isinstance(target, ast.Starred):
            return self._bind_target(f, target.value, types, vt)
        return changed

    def _infer_locals(self, f):
        vt = self.var_types[f]
        changed = False
        for n in own_nodes(f.node):
            if isinstance(n, ast.Assign):
                t = self.expr_types(f, n.value)
                if isinstance(n.value, ast.Tuple) and len(n.targets) == 1 \
                        and isinstance(n.targets[0], ast.Tuple) and len(
                            n.targets[0].elts) == len(n.value.elts):
                    for tt, vv in zip(n.targets[0].elts, n.value.elts):
                        if self._bind_target(f, tt, self.expr_types(f, vv),
                                             vt):
                            changed = True
                    continue
                if t:
                    for tg in n.targets:
                        if self._bind_target(f, tg, t, vt):
                            changed = True
            elif isinstance(n, ast.For):
                t = self.expr_types(f, n.iter)
                if t and self._bind_target(f, n.target, t, vt):
                    changed = True
            elif isinstance(n, ast.comprehension):
                t = self.expr_types(f, n.iter)
                if t and self._bind_target(f, n.target, t, vt):
                    changed = True
            elif isinstance(n, ast.withitem) and n.optional_vars is not None:
                t = self.expr_types(f, n.context_expr)
                if t and self._bind_target(f, n.optional_vars, t, vt):
                    changed = True
            elif isinstance(n, ast.Call) and isinstance(
                    n.func, ast.Attribute) and n.func.attr in (
                        'append', 'add', 'extend', 'update') and isinstance(
                            n.func.value, ast.Name) and n.args:
                t = self.expr_types(f, n.args[0])
                if t and self._bind_target(
                        f, ast.Name(id=n.func.value.id, ctx=ast.Store()), t,
                        vt):
                    changed = True
            elif isinstance(n, ast.Assign) is False and isinstance(
                    n, ast.AugAssign):
                t = self.expr_types(f, n.value)
                if t and self._bind_target(f, n.target, t, vt):
                    changed = True
        # subscript stores: d[k] = v  -> d gets types of k and v
        for n in own_nodes(f.node):
            if isinstance(n, ast.Assign):
                for tg in n.targets:
                    if isinstance(tg, ast.Subscript) and isinstance(
                            tg.value, ast.Name):
                        t = self.expr_types(f, n.value) | self.expr_types(
                            f, tg.slice)
                        if t and self._bind_target(
                                f, ast.Name(id=tg.value.id, ctx=ast.Store()),
                                t, vt):
                            changed = True
        return changed

    def _infer_returns(self, f):
        cur = self.ret_types[f]
        new = set()
        for n in own_nodes(f.node):
            if isinstance(n, ast.Return) and n.value is not None:
                v = n.value
                if isinstance(v, ast.Call) and isinstance(
                        v.func, ast.Name) and v.func.id == 'cls':
                    new.add('SELF')
                    continue
                if isinstance(v, ast.Name) and v.id in f.params and not [
                        a for a in own_nodes(f.node)
                        if isinstance(a, ast.Assign) and any(
                            isinstance(t, ast.Name) and t.id == v.id
                            for t in a.targets)]:
                    # returns its own parameter: the type is the caller's
                    # argument at that position (decided per call site)
                    new.add('ARG:%d' % f.params.index(v.id))
                    continue
                for x in self.expr_types(f, v):
                    if x.startswith('type:'):
                        continue
                    new.add(x)
        if not new <= cur:
            cur |= new
            return True
        return False

    def _propagate_args(self, f):
        """Bind argument types at call sites of project functions."""
        changed = False
        for n in own_nodes(f.node):
            if not isinstance(n, ast.Call):
                continue
            targets, recv = self._callee_funcs(f, n)
            for g in targets:
                params = list(g.params)
                if g.cls is not None and not g.has_decorator(
                        'staticmethod') and params and params[0] in (
                            'self', 'cls'):
                    params = params[1:]
                pt = self.param_types[g]
                for i, a in enumerate(n.args):
                    if i >= len(params) or isinstance(a, ast.Starred):
                        break
                    t = {x for x in self.expr_types(f, a)
                         if not x.startswith('type:')}
                    if t and not t <= pt.setdefault(params[i], set()):
                        pt[params[i]] |= t
                        changed = True
                for k in n.keywords:
                    if k.arg and k.arg in g.params:
                        t = {x for x in self.expr_types(f, k.value)
                             if not x.startswith('type:')}
                        if t and not t <= pt.setdefault(k.arg, set()):
                            pt[k.arg] |= t
                            changed = True
        return changed

    def _callee_funcs(self, f, call):
        """(list of Func, receiver class names) for a call node."""
        prog = self.prog
        fn = call.func
        d = prog.dotted(f.module, fn, f)
        tgt = prog.lookup(d) if d else None
        if isinstance(tgt, list):
            return self._pick_defs(tgt), ()
        if isinstance(tgt, model.Class):
            init = prog.find_method(tgt, '__init__')
            return (init or []), (tgt.dotted,)
        if isinstance(fn, ast.Name):
            if fn.id == 'cls' and f.cls is not None:
                init = prog.find_method(f.cls, '__init__')
                return (init or []), (f.cls.dotted,)
            return [], ()
        if isinstance(fn, ast.Attribute):
            # super().m / super(C, self).m
            if isinstance(fn.value, ast.Call) and isinstance(
                    fn.value.func, ast.Name) and fn.value.func.id == 'super' \
                    and f.cls is not None:
                out = []
                for b in f.cls.bases:
                    bc = prog.classes.get(b)
                    if bc is not None:
                        out.extend(prog.find_method(bc, fn.attr) or [])
                return out, (f.cls.dotted,)
            rt = self.expr_types(f, fn.value)
            out = []
            recv = []
            for c in sorted(rt):
                cname = c[5:] if c.startswith('type:') else c
                cls = prog.classes.get(cname)
                if cls is None:
                    continue
                ms = prog.find_method(cls, fn.attr)
                if ms:
                    for g in self._pick_defs(ms):
                        if g not in out:
                            out.append(g)
                    recv.append(cname)
            return out, tuple(recv)
        return [], ()

    @staticmethod
    def _pick_defs(fs):
        """All same-named definitions (version variants are all possible)."""
        return list(fs)

    def _resolve_call(self, f, call):
        prog = self.prog
        s = CallSite(f, call)
        fn = call.func
        targets, recv = self._callee_funcs(f, call)
        if targets:
            s.callees = targets
            s.kind = 'resolved'
            s.recv_types = recv
            if isinstance(fn, ast.Attribute):
                s.method = fn.attr
            return s
        d = prog.dotted(f.module, fn, f)
        if d is not None:
            tgt = prog.lookup(d)
            if isinstance(tgt, model.Class):
                s.kind = 'resolved'   # class without __init__ in project
                s.dotted = d
                s.recv_types = (tgt.dotted,)
                return s
            head = d.split('.')[0]
            if head == model.PKG:
                # project name that is not a function: module constant
                # holding a callable (e.g. placement_context_manager.writer)
                s.kind = 'external'
                s.dotted = d
                return s
            s.kind = 'builtin' if '.' not in d else 'external'
            s.dotted = d
            return s
        if isinstance(fn, ast.Attribute):
            s.method = fn.attr
            name = fn.attr
            rt = self.expr_types(f, fn.value)
            if rt:
                # typed receiver without such a method: attribute holding a
                # callable or inherited from a library base
                s.kind = 'external'
                s.dotted = '<%s>.%s' % ('|'.join(sorted(rt)), name)
                s.recv_types = tuple(sorted(rt))
                return s
            cands = self._method_index.get(name, [])
            is_super = isinstance(fn.value, ast.Call) and isinstance(
                fn.value.func, ast.Name) and fn.value.func.id == 'super'
            if cands and name not in BUILTIN_METHODS and not (
                    name.startswith('__') or is_super):
                out = []
                for c in cands:
                    out.extend(c.methods[name])
                s.callees = out
                s.kind = 'resolved'
                s.recv_types = tuple(c.dotted for c in cands)
                return s
            if cands:
                s.kind = 'assumed_builtin'
            else:
                s.kind = 'external'
            s.dotted = '?.%s' % name
            return s
        if isinstance(fn, ast.Name):
            # local variable holding a callable (op, exc_class, f, func)
            s.kind = 'dynamic'
            s.dotted = fn.id
            return s
        s.kind = 'dynamic'
        s.dotted = model.src(fn)
        return s
