"""Normalised shape of a function's SQL predicates.

For a closed list of key queries the join keys, filter columns, aggregate
functions and grouping columns are extracted as a set of atoms over
``table.column`` names (aliases, variable names, conjunct order and statement
splitting do not matter) and compared with a reviewed table.  Changing a
join key, dropping a filter, replacing SUM by MAX or an inner by an outer
join changes the set.
"""
import ast

from psa.model import own_nodes, src

AGGS = {'sum', 'max', 'min', 'count', 'coalesce', 'avg'}


class Shape(object):
    def __init__(self, ctx, f):
        self.ctx = ctx
        self.f = f
        self._defs = {}
        for n in own_nodes(f.node):
            if isinstance(n, ast.Assign) and len(n.targets) == 1 and \
                    isinstance(n.targets[0], ast.Name):
                self._defs.setdefault(n.targets[0].id, []).append(n.value)
        self.loop_vars = set()
        for n in own_nodes(f.node):
            if isinstance(n, (ast.For, ast.comprehension)):
                for x in ast.walk(n.target):
                    if isinstance(x, ast.Name):
                        self.loop_vars.add(x.id)

    # -- columns -------------------------------------------------------------
    def column(self, e):
        """'table.column' for X.c.col / Model.col, else None."""
        if isinstance(e, ast.Call) and isinstance(e.func, ast.Attribute) \
                and e.func.attr == 'label':
            return self.column(e.func.value)
        if not isinstance(e, ast.Attribute):
            return None
        base = e.value
        if isinstance(base, ast.Attribute) and base.attr == 'c':
            t = self.table(base.value)
            return '%s.%s' % (t, e.attr) if t else None
        # ORM: models.X.col / RPA_model.col
        t = self.ctx.effects.table_of(self.f, base)
        if t and e.attr not in ('c', '__table__'):
            return '%s.%s' % (t, e.attr)
        return None

    def table(self, e, depth=0):
        t = self.ctx.effects.table_of(self.f, e)
        if t:
            return t
        if isinstance(e, ast.Name) and depth < 4:
            ts = set()
            for d in self._defs.get(e.id, []):
                if isinstance(d, ast.Name) and d.id == e.id:
                    continue
                # x = <select>.subquery(...) / x = x.where(...)
                root = d
                while isinstance(root, ast.Call) and isinstance(
                        root.func, ast.Attribute):
                    dn = self.ctx.prog.dotted(self.f.module, root.func,
                                              self.f)
                    if dn in ('sqlalchemy.select', 'sqlalchemy.sql.select'):
                        break
                    if dn and (dn.endswith('.alias') or dn.endswith(
                            '.aliased')) and root.args:
                        root = root.args[0]
                        continue
                    # a project function returning a subquery
                    site = self.ctx.cg.site_of.get(root)
                    if site is not None and site.callees:
                        sub = set()
                        for g in site.callees:
                            for a in Shape(self.ctx, g).atoms():
                                if a.startswith('sum(') or a.startswith(
                                        'group_by '):
                                    sub.add(a.split('(')[-1].split(' ')[-1]
                                            .rstrip(')').split('.')[0])
                        if len(sub) == 1:
                            ts.add(sub.pop())
                        root = None
                        break
                    root = root.func.value
                if root is None:
                    continue
                if isinstance(root, ast.Name) and root.id != e.id:
                    tt = self.table(root, depth + 1)
                    if tt:
                        ts.add(tt)
                elif isinstance(root, ast.Call) and \
                        self.ctx.cg.site_of.get(root) is not None and \
                        self.ctx.cg.site_of[root].callees:
                    sub = set()
                    for g in self.ctx.cg.site_of[root].callees:
                        for a in Shape(self.ctx, g).atoms():
                            if a.startswith('sum('):
                                sub.add(a[4:-1].split('.')[0])
                    if len(sub) == 1:
                        ts.add(sub.pop())
                elif isinstance(root, ast.Call):
                    # select(cols...) -> tables of its columns
                    cols = [self.column(a) for a in root.args]
                    for c in cols:
                        if c:
                            ts.add(c.split('.')[0])
                    for a in root.args:
                        for x in ast.walk(a):
                            c = self.column(x) if isinstance(
                                x, ast.Attribute) else None
                            if c:
                                ts.add(c.split('.')[0])
            if len(ts) == 1:
                return '(%s)' % ts.pop()
            if ts:
                return '(%s)' % '+'.join(sorted(ts))
        # function parameter holding a table/subquery
        if isinstance(e, ast.Name) and e.id in self.f.params:
            return '<arg%d>' % self.f.params.index(e.id)
        return None

    def operand(self, e, depth=0):
        c = self.column(e)
        if c:
            return c
        if isinstance(e, ast.Constant):
            return 'const:%r' % (e.value,)
        root = e
        attrs = []
        while isinstance(root, (ast.Attribute, ast.Subscript, ast.Call)):
            if isinstance(root, ast.Attribute):
                attrs.append(root.attr)
                root = root.value
            elif isinstance(root, ast.Subscript):
                root = root.value
            else:
                root = root.func
        if isinstance(root, ast.Name):
            g = self.f
            is_param = False
            up = 0
            while g is not None:
                if root.id in g.params:
                    is_param = True
                    break
                g = g.parent
                up += 1
            if is_param and g is self.f and [
                    d for d in self._defs.get(root.id, [])
                    if not self._transparent(d, root.id)]:
                # the parameter is rebound before it is compared: what
                # reaches the query is no longer the caller's value
                return 'rebound(%s)' % ','.join(sorted(
                    self._kind(d) for d in self._defs[root.id]))
            if is_param:
                # positional: a parameter rename does not change the shape
                pid = '%sarg%d' % ('^' * up, g.params.index(root.id))
                # what every call site hands over as an attribute of one of
                # its own values (f(x.id) ... p) is the same parameter as
                # the attribute read here (f(x) ... p.id)
                pre = self._caller_attrs(g, root.id) if g is self.f else []
                return 'param:%s' % '.'.join(
                    [pid] + (pre + attrs[::-1])[:2])
            if root.id in self.loop_vars:
                return 'loopvar'
            ds = self._defs.get(root.id, [])
            if len(ds) == 1 and depth < 3 and not attrs:
                return self.operand(ds[0], depth + 1)
            if ds:
                return 'local'
        if isinstance(e, ast.BinOp):
            return 'expr(%s,%s)' % (self.operand(e.left, depth + 1),
                                    self.operand(e.right, depth + 1))
        return 'expr'

    def _caller_attrs(self, g, pname):
        from psa.rules import common as C
        chains = set()
        for caller in self.ctx.cg.callers.get(g, ()):
            for s_ in self.ctx.cg.calls_in(caller):
                if g not in s_.callees:
                    continue
                a = C.arg_for_param(s_.node, g, pname)
                ch = []
                while isinstance(a, ast.Attribute):
                    ch.append(a.attr)
                    a = a.value
                if not isinstance(a, ast.Name):
                    return []
                chains.add(tuple(ch[::-1]))
        if len(chains) == 1:
            ch = list(chains.pop())
            # the receiver itself (self.x passed from a method) is not an
            # attribute of the value
            return ch
        return []

    @staticmethod
    def _transparent(d, name):
        """A rebinding that keeps the caller's value: a copy of the
        parameter itself or an empty default."""
        if isinstance(d, (ast.Dict, ast.List, ast.Set, ast.Tuple)):
            return not (getattr(d, 'keys', None) or getattr(d, 'elts', None))
        if isinstance(d, ast.Call) and src(d.func).rsplit('.', 1)[-1] in (
                'deepcopy', 'copy', 'dict', 'list', 'set') and len(
                    d.args) == 1 and src(d.args[0]) == name:
            return True
        if isinstance(d, ast.BoolOp) and isinstance(d.op, ast.Or) and src(
                d.values[0]) == name:
            return True
        return False

    def _kind(self, e):
        if isinstance(e, ast.Call):
            return 'call:' + src(e.func).rsplit('.', 1)[-1]
        return type(e).__name__

    # -- atoms ------------------------------------------------------------------
    def atoms(self):
        return self.atoms_of(own_nodes(self.f.node))

    def atoms_of(self, nodes):
        """Atoms contributed by the given AST nodes only."""
        out = set()
        for n in nodes:
            if isinstance(n, ast.Compare) and len(n.ops) == 1:
                a, b = n.left, n.comparators[0]
                ca, cb = self.column(a), self.column(b)
                if not (ca or cb) and not self._has_column(n):
                    continue
                op = {ast.Eq: '==', ast.NotEq: '!=', ast.Lt: '<',
                      ast.LtE: '<=', ast.Gt: '>', ast.GtE: '>='}.get(
                          type(n.ops[0]))
                if op is None:
                    continue
                x, y = self.operand(a), self.operand(b)
                if op in ('==', '!=') and y < x:
                    x, y = y, x
                elif op in ('>', '>='):
                    x, y = y, x
                    op = {'>': '<', '>=': '<='}[op]
                out.add('%s %s %s' % (x, op, y))
            elif isinstance(n, ast.Call) and isinstance(
                    n.func, ast.Attribute):
                nm = n.func.attr
                col = self.column(n.func.value)
                if nm == 'in_' and col:
                    neg = isinstance(getattr(n, '_parent', None),
                                     ast.UnaryOp) and isinstance(
                                         n._parent.op, ast.Invert)
                    out.add('%s %s %s' % (col, 'not-in' if neg else 'in',
                                          self.operand(n.args[0])
                                          if n.args else '?'))
                elif nm == 'is_' and col:
                    out.add('%s is %s' % (col, src(n.args[0])
                                          if n.args else '?'))
                elif nm == 'like' and col:
                    out.add('%s like' % col)
                elif nm in AGGS and n.args:
                    c = self.column(n.args[0])
                    if c:
                        out.add('%s(%s)' % (nm, c))
                elif nm == 'group_by':
                    for a in n.args:
                        c = self.column(a)
                        if c:
                            out.add('group_by %s' % c)
                elif nm in ('join', 'outerjoin') and n.args:
                    dn = self.ctx.prog.dotted(self.f.module, n.func, self.f)
                    if dn and dn.startswith('sqlalchemy.') and len(
                            n.args) >= 2:
                        tgt = n.args[1]
                    else:
                        tgt = n.args[0]
                    out.add('%s %s' % (nm, self.table(tgt) or '?'))
                elif nm == 'limit':
                    out.add('limit')
                elif nm == 'distinct':
                    out.add('distinct')
        return out

    def _has_column(self, n):
        for x in ast.walk(n):
            if isinstance(x, ast.Attribute) and self.column(x):
                return True
        return False


def fingerprint(ctx, qname):
    f = ctx.prog.func(qname)
    return sorted(Shape(ctx, f).atoms())


import json
import os

TABLE = os.path.join(os.path.dirname(os.path.abspath(__file__)), 'tables',
                     'sql_shapes.json')


def load_table():
    with open(TABLE) as fh:
        return json.load(fh)['functions']


def canon_params(atoms):
    """Parameter tokens (param:arg1.id, param:^arg0.id for a captured one)
    are relabelled p0, p1, ... in the order of the atoms sorted with the
    parameter identity masked: reordering a function's parameters, or
    turning it into a closure over the same values, keeps the shape."""
    import re
    pat = re.compile(r'param:\^*arg\d+')
    # a value computed in Python is opaque whether or not it was given a
    # name first
    atoms = [re.sub(r'\blocal\b', 'expr', a) for a in atoms]
    masked = sorted(atoms, key=lambda a: (pat.sub('param:#', a), a))
    label = {}
    out = []
    for a in masked:
        def rep(m):
            k = m.group(0)
            if k not in label:
                label[k] = 'param:p%d' % len(label)
            return label[k]
        out.append(pat.sub(rep, a))
    return sorted(out)


def shape_rule(ctx, R, rule, qnames):
    """Obligation per function: its SQL shape equals the reviewed one."""
    frozen = load_table()
    n = 0
    for q in qnames:
        n += 1
        f = ctx.prog.func(q)
        got = fingerprint(ctx, q)
        want = frozen.get(q)
        if want is None:
            from psa import model
            raise model.AnalysisError('no reviewed SQL shape for %s' % q)
        want = canon_params(want['atoms'])
        got = canon_params(got)
        R.ob(rule, 'sql-shape:%s' % q.split(':')[1], set(got) == set(want),
             'join keys, filters, aggregates and grouping of the query are '
             'the reviewed ones', 'added %s; removed %s' % (
                 sorted(set(got) - set(want)), sorted(set(want) - set(got))),
             func=f)
    return n
