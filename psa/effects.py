"""SQL effects and transaction scopes.

The model of SQLAlchemy statement construction is a closed list: an
unrecognised way of writing to a table is not seen, which is why the
who-may-write rules additionally require every ``session.execute`` /
``session.add`` / ``.save(session)`` argument to resolve to a recognised
statement (otherwise: analysis error, never a pass).
"""
import ast

from psa import cfg as cfgmod
from psa import model
from psa.model import own_nodes, src, enclosing_stmt

WRITER = 'placement.db_api.placement_context_manager.writer'
READER = 'placement.db_api.placement_context_manager.reader'
RETRY = 'oslo_db.api.wrap_db_retry'

CORE_TABLES = {
    'allocations', 'inventories', 'resource_providers',
    'resource_provider_traits', 'resource_provider_aggregates',
    'placement_aggregates', 'traits', 'resource_classes',
}
AUX_TABLES = {'projects', 'users', 'consumer_types'}
# consumers: UPDATE is core, INSERT/DELETE auxiliary (the residue C04/C18
# allow is "a consumer without allocations")


def is_core(op, table):
    if table in CORE_TABLES and op in 'IUD':
        return True
    if table == 'consumers' and op == 'U':
        return True
    return False


class Effect(object):
    __slots__ = ('func', 'node', 'stmt', 'op', 'table', 'columns', 'build',
                 'exec_node')

    def __init__(self, func, node, op, table, columns=None, build=None):
        self.func = func
        self.node = node          # ast node where the effect takes place
        self.stmt = enclosing_stmt(node)
        self.op = op              # I U D R
        self.table = table
        self.columns = columns    # set of column names or None (unknown)
        self.build = build        # ast node building the statement

    def __repr__(self):
        return '<%s %s %s %s>' % (self.op, self.table,
                                  sorted(self.columns or []) or '*',
                                  self.func.loc(self.node))


class Effects(object):
    def __init__(self, prog, cg):
        self.prog = prog
        self.cg = cg
        self.tables = self._model_tables()
        self.module_tables = {}     # module -> {name: table}
        for m in prog.modules.values():
            self.module_tables[m.name] = self._module_table_names(m)
        self.direct = {}
        self.unresolved_exec = []   # (func, node) executes we cannot type
        for f in prog.funcs:
            self.direct[f] = self._direct(f)
        self._summary = {}

    # -- tables -------------------------------------------------------------
    def _model_tables(self):
        m = self.prog.module('placement.db.sqlalchemy.models')
        out = {}
        for c in m.classes.values():
            tn = c.attrs.get('__tablename__')
            if isinstance(tn, ast.Constant):
                out[c.dotted] = tn.value
        if len(out) < 11:
            raise model.AnalysisError('models: expected >= 11 tables, found '
                                      '%d' % len(out))
        return out

    def _module_table_names(self, m):
        out = {}
        for name, sts in m.assigns.items():
            for st in sts:
                t = self._table_of_simple(m, None, st.value, out)
                if t:
                    out[name] = t
        return out

    def _table_of_simple(self, m, f, e, known):
        """models.X / models.X.__table__ / sa.alias(T, ...) / known name."""
        if isinstance(e, ast.Attribute) and e.attr == '__table__':
            return self._table_of_simple(m, f, e.value, known)
        if isinstance(e, ast.Call):
            d = self.prog.dotted(m, e.func, f)
            if d in ('sqlalchemy.alias', 'sqlalchemy.sql.alias',
                     'sqlalchemy.orm.aliased') and e.args:
                return self._table_of_simple(m, f, e.args[0], known)
            return None
        if isinstance(e, ast.Name) and e.id in known:
            return known[e.id]
        d = self.prog.dotted(m, e, f)
        if d in self.tables:
            return self.tables[d]
        if d and '.' in d:
            head, last = d.rsplit('.', 1)
            if head in self.module_tables and last in self.module_tables[
                    head]:
                return self.module_tables[head][last]
        return None

    def table_of(self, f, e, at=None):
        """Table name an expression denotes inside function f (or None)."""
        key = (id(f), id(e))
        busy = self.__dict__.setdefault('_table_of_busy', set())
        if key in busy or len(busy) > 200:
            return None        # self-referential definitions (q = q.join())
        busy.add(key)
        try:
            return self._table_of(f, e, at)
        finally:
            busy.discard(key)

    def _table_of(self, f, e, at=None):
        m = f.module
        if isinstance(e, ast.Name):
            # local alias: reaching definitions
            g = f
            while g is not None:
                if e.id in model.local_names(g):
                    ts = set()
                    for d in self._defs_of(g, e.id):
                        t = self.table_of(g, d)
                        if t:
                            ts.add(t)
                    if len(ts) == 1:
                        return ts.pop()
                    if ts:
                        return '|'.join(sorted(ts))
                    return None
                if e.id in g.params:
                    # default value (inv_tbl=_INV_TBL)
                    a = g.node.args
                    allp = a.posonlyargs + a.args
                    defs = a.defaults
                    off = len(allp) - len(defs)
                    for i, p in enumerate(allp):
                        if p.arg == e.id and i >= off:
                            return self.table_of(g, defs[i - off])
                    return None
                g = g.parent
            return self.module_tables.get(m.name, {}).get(e.id)
        if isinstance(e, ast.Attribute) and isinstance(
                e.value, ast.Name) and e.value.id == 'self' and \
                f.cls is not None:
            # class attribute holding a table (attribute caches)
            ts = set()
            for c in self.prog.classes.values():
                if c.dotted == f.cls.dotted or f.cls.dotted in \
                        self._all_bases(c):
                    v = c.attrs.get(e.attr)
                    if v is not None:
                        t = self._table_of_simple(c.module, None, v,
                                                  self.module_tables.get(
                                                      c.module.name, {}))
                        if t:
                            ts.add(t)
            if ts:
                return '|'.join(sorted(ts))
            return None
        return self._table_of_simple(m, f, e,
                                     self.module_tables.get(m.name, {}))

    def _all_bases(self, c, seen=None):
        seen = seen or set()
        for b in c.bases:
            if b not in seen:
                seen.add(b)
                bc = self.prog.classes.get(b)
                if bc is not None:
                    self._all_bases(bc, seen)
        return seen

    def _defs_of(self, f, name):
        out = []
        for n in own_nodes(f.node):
            if isinstance(n, ast.Assign):
                for t in n.targets:
                    if isinstance(t, ast.Name) and t.id == name:
                        out.append(n.value)
        return out

    # -- reaching definitions ---------------------------------------------
    def reaching_defs(self, f, name, at_stmt):
        """Values assigned to ``name`` that may reach ``at_stmt``."""
        g = cfgmod.cfg_of(f)
        out = []
        seen = set()
        stack = [p for p in g.pred.get(at_stmt, ())]
        # the statement itself may both use and define (x = x.where(..)):
        # uses see definitions from predecessors only
        while stack:
            n = stack.pop()
            if n in seen or isinstance(n, str):
                continue
            seen.add(n)
            val = _assigned_value(n, name)
            if val is not None:
                out.append((n, val))
                continue
            stack.extend(g.pred.get(n, ()))
        return out

    # -- statement classification ---------------------------------------
    def classify(self, f, e, at_stmt, depth=0, _visiting=None):
        """Classify an expression as an SQL statement.

        Returns list of (op, table, columns, build_node); [] if not SQL;
        None if it cannot be decided.
        """
        if depth > 40:
            return None
        if _visiting is None:
            _visiting = set()
        if isinstance(e, ast.Name):
            g = f
            while g is not None and e.id not in model.local_names(g) \
                    and e.id not in g.params:
                g = g.parent
            if g is None:
                return None
            if g is not f:
                defs = [(None, v) for v in self._defs_of(g, e.id)]
                owner = g
            else:
                defs = self.reaching_defs(f, e.id, at_stmt)
                owner = f
            if not defs:
                return None
            out = []
            for st, val in defs:
                key = (id(val), e.id)
                if key in _visiting:
                    continue      # loop-carried redefinition: same roots
                _visiting.add(key)
                r = self.classify(owner, val, st if st is not None
                                  else at_stmt, depth + 1, _visiting)
                if r is None:
                    return None
                out.extend(r)
            return out
        # walk the method chain down to its root
        chain = []
        cur = e
        while True:
            if isinstance(cur, ast.Call) and self._is_root_call(f, cur):
                break
            if isinstance(cur, ast.Call) and isinstance(
                    cur.func, ast.Attribute):
                chain.append((cur.func.attr, cur))
                cur = cur.func.value
            elif isinstance(cur, ast.Attribute):
                if self.table_of(f, cur):
                    break
                chain.append((cur.attr, None))
                cur = cur.value
            else:
                break
        chain.reverse()   # root-first
        names = [c[0] for c in chain]
        # sa.select(...) / sa.text(...) / sql.func...
        if isinstance(cur, ast.Call):
            d = self.prog.dotted(f.module, cur.func, f)
            if d in ('sqlalchemy.select', 'sqlalchemy.sql.select',
                     'sqlalchemy.union', 'sqlalchemy.sql.union'):
                return [('R', None, None, cur)]
            if d in ('sqlalchemy.text', 'sqlalchemy.sql.text'):
                return [('X', None, None, cur)]
            if isinstance(cur.func, ast.Attribute) and cur.func.attr == \
                    'query':
                # session.query(M, ...)
                tbl = None
                for a in cur.args:
                    t = self._table_in_expr(f, a)
                    if t:
                        tbl = t
                        break
                op = 'R'
                cols = None
                if 'delete' in names:
                    op = 'D'
                elif 'update' in names:
                    op = 'U'
                    for nm, call in chain:
                        if nm == 'update' and call is not None and call.args \
                                and isinstance(call.args[0], ast.Dict):
                            cols = set(k.value for k in call.args[0].keys
                                       if isinstance(k, ast.Constant))
                return [(op, tbl, cols, cur)]
            # models.X(...) object
            t = self._table_of_simple(f.module, f, cur.func,
                                      self.module_tables.get(
                                          f.module.name, {}))
            if t and not chain:
                return [('I', t, None, cur)]
            return None
        if isinstance(cur, (ast.Name, ast.Attribute)):
            tbl = self.table_of(f, cur)
            if tbl and names and names[0] in ('insert', 'update', 'delete',
                                              'select'):
                op = {'insert': 'I', 'update': 'U', 'delete': 'D',
                      'select': 'R'}[names[0]]
                cols = None
                for nm, call in chain:
                    if nm == 'values' and call is not None:
                        cols = set(k.arg for k in call.keywords if k.arg)
                    if nm == 'from_select' and call is not None:
                        cols = None
                return [(op, tbl, cols, e)]
            if names and (tbl is None) and isinstance(cur, ast.Name):
                # x = x.where(...): continue from the variable's definitions
                r = self.classify(f, cur, at_stmt, depth + 1, _visiting)
                if r is None:
                    return None
                out = []
                for op, t, cols, b in r:
                    if op == 'R' and 'delete' in names and t:
                        op = 'D'
                    elif op == 'R' and 'update' in names and t:
                        op = 'U'
                        for nm, call in chain:
                            if nm == 'update' and call is not None and \
                                    call.args and isinstance(
                                        call.args[0], ast.Dict):
                                cols = set(
                                    k.value for k in call.args[0].keys
                                    if isinstance(k, ast.Constant))
                    if op in 'IU':
                        for nm, call in chain:
                            if nm == 'values' and call is not None:
                                cols = set(k.arg for k in call.keywords
                                           if k.arg)
                    out.append((op, t, cols, b))
                return out
        return None

    def _is_root_call(self, f, call):
        d = self.prog.dotted(f.module, call.func, f)
        if d in ('sqlalchemy.select', 'sqlalchemy.sql.select',
                 'sqlalchemy.union', 'sqlalchemy.sql.union',
                 'sqlalchemy.text', 'sqlalchemy.sql.text'):
            return True
        if isinstance(call.func, ast.Attribute) and call.func.attr == \
                'query' and isinstance(call.func.value, ast.Attribute) and \
                call.func.value.attr == 'session':
            return True
        if self._table_of_simple(f.module, f, call.func,
                                 self.module_tables.get(f.module.name, {})):
            return True
        return False

    def _table_in_expr(self, f, e):
        for n in ast.walk(e):
            if isinstance(n, (ast.Name, ast.Attribute)):
                t = self.table_of(f, n)
                if t:
                    return t
        return None

    def _direct(self, f):
        out = []
        for n in own_nodes(f.node):
            if not isinstance(n, ast.Call) or not isinstance(
                    n.func, ast.Attribute):
                continue
            name = n.func.attr
            st = enclosing_stmt(n)
            recv = n.func.value
            is_session = isinstance(recv, ast.Attribute) and \
                recv.attr == 'session' or (
                    isinstance(recv, ast.Name) and recv.id in ('session',
                                                               'conn'))
            if name == 'execute' and is_session and n.args:
                r = self.classify(f, n.args[0], st)
                if r is None:
                    self.unresolved_exec.append((f, n))
                    continue
                for op, tbl, cols, b in r:
                    if op == 'X':
                        continue
                    if op == 'R':
                        for t in self._read_tables(f, b):
                            out.append(Effect(f, n, 'R', t, None, b))
                    else:
                        out.append(Effect(f, n, op, tbl, cols, b))
            elif name == 'add' and is_session and n.args:
                r = self.classify(f, n.args[0], st)
                if r is None:
                    self.unresolved_exec.append((f, n))
                    continue
                for op, tbl, cols, b in r:
                    if op == 'R':
                        op = 'U'     # object loaded by a query, re-added
                    out.append(Effect(f, n, op, tbl, cols, b))
            elif name == 'save' and n.args and isinstance(
                    n.args[0], ast.Attribute) and n.args[0].attr == \
                    'session':
                r = self.classify(f, recv, st)
                if r is None:
                    self.unresolved_exec.append((f, n))
                    continue
                for op, tbl, cols, b in r:
                    if op == 'R':
                        op = 'U'
                    out.append(Effect(f, n, op, tbl, cols, b))
            elif name in ('delete', 'update', 'count', 'first', 'all', 'one',
                          'scalar') and not is_session:
                # ORM query chain executed immediately
                r = self.classify(f, n, st)
                if not r:
                    continue
                for op, tbl, cols, b in r:
                    if not (isinstance(b, ast.Call) and isinstance(
                            b.func, ast.Attribute) and b.func.attr ==
                            'query'):
                        continue
                    if name in ('count', 'first', 'all', 'one', 'scalar'):
                        op = 'R'
                    out.append(Effect(f, n, op, tbl, cols, b))
        return out

    def _read_tables(self, f, build):
        """Tables mentioned while building a SELECT (coarse: by function)."""
        ts = set()
        for n in own_nodes(f.node):
            if isinstance(n, ast.Name):
                t = self.table_of(f, n)
                if t:
                    for x in t.split('|'):
                        ts.add(x)
        return sorted(ts)

    # -- summaries ------------------------------------------------------------
    def summary(self, f, _stack=None):
        """Set of (op, table) reachable from f, including f."""
        if f in self._summary:
            return self._summary[f]
        seen = self.cg.reachable([f])
        out = set()
        for g in seen:
            for e in self.direct.get(g, ()):
                out.add((e.op, e.table))
        self._summary[f] = out
        return out

    def write_effects_below(self, f):
        out = []
        for g in self.cg.reachable([f]):
            for e in self.direct.get(g, ()):
                if e.op in 'IUD':
                    out.append(e)
        return out

    # -- transaction scopes -----------------------------------------------------
    @staticmethod
    def scope_kind(f):
        for d in f.decorators:
            if d.qname == WRITER:
                return 'writer'
            if d.qname == READER:
                return 'reader'
        return None

    def tx_roots(self, entry):
        """Scope-decorated functions reachable from entry without passing
        through another scope-decorated function."""
        roots = []
        seen = set()
        stack = [entry]
        while stack:
            f = stack.pop()
            if f in seen:
                continue
            seen.add(f)
            if self.scope_kind(f) and f is not entry:
                roots.append(f)
                continue
            if self.scope_kind(f) and f is entry:
                roots.append(f)
                continue
            for g in self.cg.callees(f):
                stack.append(g)
        return roots

    def unscoped_writes(self, entry):
        """Write effects reachable from entry outside any writer scope."""
        out = []
        seen = set()
        stack = [entry]
        while stack:
            f = stack.pop()
            if f in seen:
                continue
            seen.add(f)
            if self.scope_kind(f) == 'writer':
                continue
            for e in self.direct.get(f, ()):
                if e.op in 'IUD':
                    out.append(e)
            for g in self.cg.callees(f):
                stack.append(g)
        return out


def _assigned_value(st, name):
    """If statement st (its own CFG node) assigns ``name``: the value."""
    if isinstance(st, ast.Assign):
        for t in st.targets:
            if isinstance(t, ast.Name) and t.id == name:
                return st.value
            if isinstance(t, (ast.Tuple, ast.List)):
                for i, x in enumerate(t.elts):
                    if isinstance(x, ast.Name) and x.id == name:
                        if isinstance(st.value, (ast.Tuple, ast.List)) and \
                                len(st.value.elts) == len(t.elts):
                            return st.value.elts[i]
                        return st.value
    elif isinstance(st, ast.AugAssign):
        if isinstance(st.target, ast.Name) and st.target.id == name:
            return st.value
    elif isinstance(st, ast.For):
        for x in ast.walk(st.target):
            if isinstance(x, ast.Name) and x.id == name:
                return st.iter
    elif isinstance(st, ast.With):
        for it in st.items:
            if it.optional_vars is not None:
                for x in ast.walk(it.optional_vars):
                    if isinstance(x, ast.Name) and x.id == name:
                        return it.context_expr
    return None
